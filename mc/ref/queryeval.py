"""Query-language reference: AST, pretty printer with separator-spacing styles, a small
recursive-descent reference parser (printer sanity) and a reference evaluator.

AST nodes (tuples):  ("int", n) | ("str", text, quote) | ("list", (items...)) |
("dict", ((key_text, value)...)) | ("call", name, (args...)) | ("var", name)
Program: tuple of (varname, expr)."""
from datetime import timedelta

# --- printing ---------------------------------------------------------------
COMPACT = {",": ("", ""), ":": ("", ""), "=": ("", ""), ";": ("", "")}
SPACED = {",": ("", " "), ":": ("", " "), "=": (" ", " "), ";": ("", " ")}
WIDE = {",": (" ", " "), ":": (" ", " "), "=": (" ", " "), ";": (" ", " ")}
NEWLINES = {",": ("\n", "\n"), ":": ("\n", "\n"), "=": ("\n", "\n"), ";": ("\n", "\n  ")}


TABS = {",": ("\t", "\t"), ":": ("", "\t"), "=": ("\t", "\t"), ";": ("", "\t")}
CRLF = {",": ("", "\r\n"), ":": ("", " "), "=": (" ", " "), ";": ("", "\r\n")}


def all_styles():
    styles = [("compact", COMPACT), ("spaced", SPACED), ("wide", WIDE), ("newlines", NEWLINES), ("tabs", TABS), ("crlf", CRLF)]
    # empty statements between two separators are skipped (seeded: the statement loop stopped at the first one)
    st = dict(COMPACT)
    st[";"] = ("", ";")
    styles.append(("double-semicolon", st))
    st = dict(SPACED)
    st[";"] = (" ; ", "\n")
    styles.append(("empty-statement-spaced", st))
    for sep in (",", ":", "=", ";"):
        for b in ("", " ", "\n"):
            for a in ("", " ", "\n"):
                if (b, a) == ("", ""):
                    continue
                st = dict(COMPACT)
                st[sep] = (b, a)
                styles.append((f"{sep!r}:{b!r}+{a!r}", st))
    return styles


def q(text, quote='"'):
    return quote + text.replace(quote, "\\" + quote) + quote


def pr(e, st):
    k = e[0]
    c = st[","][0] + "," + st[","][1]
    if k == "int":
        return str(e[1])
    if k == "str":
        return q(e[1], e[2])
    if k == "var":
        return e[1]
    if k == "list":
        return "[" + c.join(pr(x, st) for x in e[1]) + "]"
    if k == "dict":
        col = st[":"][0] + ":" + st[":"][1]
        return "{" + c.join(q(kk) + col + pr(v, st) for kk, v in e[1]) + "}"
    if k == "call":
        return e[1] + "(" + c.join(pr(x, st) for x in e[2]) + ")"
    raise ValueError(e)


def pr_program(prog, st, trailing=True):
    eq = st["="][0] + "=" + st["="][1]
    semi = st[";"][0] + ";" + st[";"][1]
    s = semi.join(var + eq + pr(e, st) for var, e in prog)
    return s + (";" if trailing else "")


# --- reference parser (sanity of the printer; run on every printed program) -------
class RefParseError(Exception):
    pass


def ref_parse_program(text):
    prog = []
    for stmt in _split_statements(text):
        stmt = stmt.strip()
        if not stmt:
            continue
        i = stmt.find("=")
        if i < 0:
            raise RefParseError("no =")
        var = stmt[:i].strip()
        p = _P(stmt[i + 1 :])
        p.ws()
        e = p.expr()
        p.ws()
        if p.i != len(p.s):
            raise RefParseError("trailing text")
        prog.append((var, e))
    return tuple(prog)


def _split_statements(text):
    # ';' inside strings is outside the stated grammar, so a plain split is the reference too
    return text.split(";")


class _P:
    def __init__(self, s):
        self.s = s
        self.i = 0

    def ws(self):
        while self.i < len(self.s) and self.s[self.i] in " \n\t\r":
            self.i += 1

    def peek(self):
        return self.s[self.i] if self.i < len(self.s) else ""

    def expr(self):
        c = self.peek()
        if c in "\"'":
            return self.string()
        if c.isdigit():
            j = self.i
            while self.peek().isdigit():
                self.i += 1
            return ("int", int(self.s[j : self.i]))
        if c == "[":
            self.i += 1
            return ("list", tuple(self.seq("]", self.expr)))
        if c == "{":
            self.i += 1
            return ("dict", tuple(self.seq("}", self.entry)))
        if c.isalpha() or c == "_":
            j = self.i
            while self.peek().isalnum() or self.peek() == "_":
                self.i += 1
            name = self.s[j : self.i]
            if self.peek() == "(":
                self.i += 1
                return ("call", name, tuple(self.seq(")", self.expr)))
            return ("var", name)
        raise RefParseError(f"unexpected {c!r} at {self.i}")

    def entry(self):
        k = self.string()
        self.ws()
        if self.peek() != ":":
            raise RefParseError("expected :")
        self.i += 1
        self.ws()
        return (k[1], self.expr())

    def seq(self, close, item):
        out = []
        self.ws()
        if self.peek() == close:
            self.i += 1
            return out
        while True:
            self.ws()
            out.append(item())
            self.ws()
            if self.peek() == ",":
                self.i += 1
                continue
            if self.peek() == close:
                self.i += 1
                return out
            raise RefParseError(f"expected , or {close} at {self.i}")

    def string(self):
        quote = self.peek()
        self.i += 1
        out = []
        while True:
            if self.i >= len(self.s):
                raise RefParseError("unclosed string")
            c = self.s[self.i]
            if c == "\\" and self.i + 1 < len(self.s) and self.s[self.i + 1] == quote:
                out.append(quote)
                self.i += 2
                continue
            if c == quote:
                self.i += 1
                return ("str", "".join(out), quote)
            out.append(c)
            self.i += 1


# --- reference evaluator ----------------------------------------------------
class RefError(Exception):
    def __init__(self, kind, msg=""):
        super().__init__(f"{kind}: {msg}")
        self.kind = kind


def ref_eval_program(prog, funcs, init_ns):
    """funcs: name -> python callable(*values). Python reference semantics for variables."""
    ns = dict(init_ns)
    for var, e in prog:
        ns[var] = ref_eval(e, funcs, ns)
    if "RETURN" not in ns:
        raise RefError("parse", "no RETURN")
    return ns["RETURN"]


def ref_eval(e, funcs, ns):
    k = e[0]
    if k == "int":
        return e[1]
    if k == "str":
        return e[1]
    if k == "var":
        if e[1] not in ns:
            raise RefError("interpret", f"unknown variable {e[1]}")
        return ns[e[1]]
    if k == "list":
        return [ref_eval(x, funcs, ns) for x in e[1]]
    if k == "dict":
        return {kk: ref_eval(v, funcs, ns) for kk, v in e[1]}
    if k == "call":
        if e[1] not in funcs:
            raise RefError("interpret", f"unknown function {e[1]}")
        args = [ref_eval(x, funcs, ns) for x in e[2]]
        return funcs[e[1]](*args)
    raise ValueError(e)


def norm(v):
    """structural normal form of a query result for comparison"""
    from aw_core.models import Event

    if isinstance(v, Event):
        return ("event", v.id, v.timestamp.isoformat(), v.duration.total_seconds(), norm(v.data))
    if isinstance(v, timedelta):
        return ("timedelta", v.total_seconds())
    if isinstance(v, bool):
        return ("bool", v)
    if isinstance(v, (list, tuple)):
        return ("list", tuple(norm(x) for x in v))
    if isinstance(v, dict):
        return ("dict", tuple(sorted((str(k), norm(x)) for k, x in v.items())))
    return (type(v).__name__, v)
