"""Reference model of one bucket: a plain dict id -> (start_us, dur_us, data_json).
Ids are opaque handles taken from the implementation; the model never predicts
an id value.  `perform` applies one operation of the event-op alphabet to the
real bucket and returns what the model expects; `compare` checks the real
bucket against it and classifies any difference."""
import collections

from aw_core.models import Event
from mc.drivers import stores as S


class BModel:
    def __init__(self):
        self.live = {}
        self.ever = set()

    def ids(self):
        return sorted(self.live)

    def copy(self):
        m = BModel()
        m.live = dict(self.live)
        m.ever = set(self.ever)
        return m


def content(emb, ev):
    e = emb.ev(ev[0], ev[1], ev[2])
    return (S.us_of(e.timestamp), S.dus_of(e.duration), S.canon_data(e.data))


def tup(x):
    return tuple(tup(i) for i in x) if isinstance(x, (list, tuple)) else x


def enabled_ops(model, E, K, pairs=None, foreign=False):
    """all operations of the alphabet enabled in a bucket holding model.live"""
    n = len(model.live)
    ops = []
    if n + 1 <= K:
        ops += [("ins", e) for e in E]
    if n + 2 <= K:
        prs = pairs if pairs is not None else [(E[i], E[(i + 1) % len(E)]) for i in range(len(E))] + [(e, e) for e in E]
        ops += [("bulk", p) for p in prs]
        # the SAME event object listed twice: two insertions all the same (a seeded batch-wide
        # deepcopy with a shared memo collapsed them into one stored object with one id)
        ops += [("bulksame", e) for e in E[:2]]
    for k in range(n):
        ops += [("ups", k, e) for e in E]
        if n + 1 <= K:
            ops += [("mix", k, E[i], E[(i + 1) % len(E)]) for i in range(len(E))]
        ops += [("rep", k, e) for e in E]
        ops.append(("del", k))
        # the replacement object carries ANOTHER id (e.g. an event read earlier): the addressed id is what counts
        ops.append(("rep_otherid", k, E[k % len(E)]))
        # one bulk upsert naming the same id twice: applied in order, the last one stays
        ops.append(("ups_twice", k, E[0], E[(k + 1) % len(E)]))
    if n:
        ops += [("repl", e) for e in E]
        ops.append(("repl_otherid", E[1 % len(E)]))
    ops.append(("delx",))
    if foreign:
        ops.append(("delf",))  # delete with an id that is live in ANOTHER bucket (never existed in this one)
    return ops


NEVER_ID = 987654321
FOREIGN_ID = [None]  # set by the driver: an id that is live in another bucket of the same database


def perform(ds, bid, model, op, emb):
    """apply op to the real bucket; return expectation dict"""
    b = ds[bid]
    ids = model.ids()
    exp = dict(model.live)
    fresh = []
    target = None
    kind = op[0]
    exc = None
    try:
        if kind == "ins":
            b.insert(emb.ev(*op[1]))
            fresh.append(content(emb, op[1]))
        elif kind == "bulk":
            b.insert([emb.ev(*e) for e in op[1]])
            fresh += [content(emb, e) for e in op[1]]
        elif kind == "bulksame":
            ev = emb.ev(*op[1])
            b.insert([ev, ev])
            fresh += [content(emb, op[1]), content(emb, op[1])]
        elif kind == "ups":
            target = ids[op[1]]
            b.insert([emb.ev(*op[2], id=target)])
            exp[target] = content(emb, op[2])
        elif kind == "mix":
            target = ids[op[1]]
            b.insert([emb.ev(*op[2], id=target), emb.ev(*op[3])])
            exp[target] = content(emb, op[2])
            fresh.append(content(emb, op[3]))
        elif kind == "rep":
            target = ids[op[1]]
            b.replace(target, emb.ev(*op[2]))
            exp[target] = content(emb, op[2])
        elif kind == "rep_otherid":
            target = ids[op[1]]
            other = ids[(op[1] + 1) % len(ids)] if len(ids) > 1 else NEVER_ID
            b.replace(target, emb.ev(*op[2], id=other))
            exp[target] = content(emb, op[2])
        elif kind == "ups_twice":
            target = ids[op[1]]
            b.insert([emb.ev(*op[2], id=target), emb.ev(*op[3], id=target)])
            exp[target] = content(emb, op[3])
        elif kind == "repl_otherid":
            newest = b.get(limit=1)
            if len(newest) != 1 or newest[0].id not in model.live:
                return dict(exp=exp, fresh=fresh, target=None, exc=None, pre=f"limit-1 read on non-empty bucket returned {[S.ev_tuple(x) for x in newest]}")
            target = newest[0].id
            other = min(ids) if min(ids) != target else (max(ids) if max(ids) != target else NEVER_ID)
            b.replace_last(emb.ev(*op[1], id=other))
            exp[target] = content(emb, op[1])
        elif kind == "repl":
            newest = b.get(limit=1)
            if len(newest) != 1 or newest[0].id not in model.live:
                return dict(exp=exp, fresh=fresh, target=None, exc=None, pre=f"limit-1 read on non-empty bucket returned {[S.ev_tuple(x) for x in newest]}")
            target = newest[0].id
            b.replace_last(emb.ev(*op[1]))
            exp[target] = content(emb, op[1])
        elif kind == "del":
            target = ids[op[1]]
            b.delete(target)
            del exp[target]
        elif kind == "delx":
            b.delete(NEVER_ID)
        elif kind == "delf":
            b.delete(FOREIGN_ID[0])
        else:
            raise ValueError(op)
    except Exception as e:  # the property gives no licence to raise on these ops
        exc = f"{type(e).__name__}: {e}"
    return dict(exp=exp, fresh=fresh, target=target, exc=exc, pre=None)


def compare(ds, bid, model, x, opname):
    """-> list of (symptom, detail); updates model to the implementation's state
    when there is no difference."""
    probs = []
    if x.get("pre"):
        return [("limit1-read-wrong", x["pre"])]
    if x["exc"]:
        return [("raised-" + x["exc"].split(":")[0], x["exc"])]
    b = ds[bid]
    dump = S.dump_bucket(ds, bid)
    after = {}
    for t in dump:
        if t[0] in after or t[0] is None:
            probs.append(("duplicate-or-missing-id", f"listing has id {t[0]} twice or None: {dump}"))
        after[t[0]] = t[1:]
    exp = x["exp"]
    for i, c in exp.items():
        if i not in after:
            probs.append(("lost" if i != x["target"] else "target-lost", f"id {i} {c} vanished"))
        elif after[i] != c:
            if i == x["target"]:
                probs.append(("target-not-rewritten", f"id {i} expected {c} got {after[i]}"))
            else:
                probs.append(("other-record-changed", f"id {i} expected {c} got {after[i]}"))
    extra = {i: c for i, c in after.items() if i not in exp}
    if opname in ("del",) and x["target"] in after:
        probs.append(("delete-did-not-remove", f"id {x['target']} still present"))
        extra.pop(x["target"], None)
    if collections.Counter(extra.values()) != collections.Counter(x["fresh"]):
        probs.append(("inserted-events-mismatch", f"expected new {sorted(x['fresh'])} got {sorted(extra.items())}"))
    for i in extra:
        if i in model.live:
            probs.append(("id-reused-for-live", f"id {i}"))
    # lookups and count
    for i, c in after.items():
        e = b.get_by_id(i)
        if e is None or S.ev_tuple(e) != (i,) + c:
            probs.append(("lookup-mismatch", f"get_by_id({i}) = {None if e is None else S.ev_tuple(e)} listing says {c}"))
    for i in (model.ever | set(model.live)) - set(after):
        e = b.get_by_id(i)
        if e is not None:
            probs.append(("lookup-of-dead-id", f"get_by_id({i}) = {S.ev_tuple(e)}"))
    e = b.get_by_id(NEVER_ID)
    if e is not None:
        probs.append(("lookup-of-dead-id", f"get_by_id(never) = {S.ev_tuple(e)}"))
    if FOREIGN_ID[0] is not None and FOREIGN_ID[0] not in after and FOREIGN_ID[0] not in model.ever and FOREIGN_ID[0] not in model.live:
        # an id that is live in ANOTHER bucket is not an id of this one (seeded: lookup by primary key only)
        e = b.get_by_id(FOREIGN_ID[0])
        if e is not None:
            probs.append(("lookup-of-foreign-id", f"get_by_id(id {FOREIGN_ID[0]} of another bucket) = {S.ev_tuple(e)}"))
    n = b.get_eventcount()
    if n != len(dump):
        probs.append(("count-mismatch", f"get_eventcount() = {n}, listing has {len(dump)}"))
    if not probs:
        model.ever |= set(model.live) | set(after)
        model.live = after
    return probs
