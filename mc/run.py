"""Runner: ./check <ID> [quick|thorough] [--replay FILE] [--workers N]

Exit codes: 0 property held on everything explored (KNOWN-FINDING lines allowed);
1 + "VIOLATION property=<ID> replay=<path>" for a violation not listed in
known_findings.json; 2 harness self-check failed (vacuous run, nondeterminism,
clock not owned ...) -- never used to hide a violation.
"""
import argparse
import atexit
import hashlib
import importlib
import json
import logging
import os
import shutil
import sys
import time
import warnings

HERE = os.path.dirname(os.path.dirname(os.path.abspath(__file__)))


def _setup_env():
    warnings.simplefilter("ignore")
    logging.disable(logging.CRITICAL)
    root = f"/dev/shm/verif-{os.getpid()}"
    if not os.path.isdir("/dev/shm"):
        import tempfile

        root = tempfile.mkdtemp(prefix="verif-", dir=os.environ.get("VERIF_SCRATCH", "/var/tmp"))
    os.makedirs(root, exist_ok=True)
    for k, sub in (("XDG_DATA_HOME", "data"), ("XDG_CONFIG_HOME", "config"), ("XDG_CACHE_HOME", "cache"), ("XDG_STATE_HOME", "state")):
        p = os.path.join(root, "xdg", sub)
        os.makedirs(p, exist_ok=True)
        os.environ[k] = p
    # aw-core's ensure_path_exists() is check-then-create: 16 workers constructing their first
    # PeeweeStorage at the same instant raced on this directory (FileExistsError, seen 4 times in
    # ~1500 runs as an exit-2 harness failure within 0.4 s).  Create the shared directories up front.
    for sub in ("data/activitywatch/aw-server", "config/activitywatch", "cache/activitywatch/log", "state/activitywatch"):
        os.makedirs(os.path.join(root, "xdg", sub), exist_ok=True)
    os.environ["HOME"] = os.path.join(root, "home")
    os.makedirs(os.environ["HOME"], exist_ok=True)
    mypid = os.getpid()

    def _cleanup():
        if os.getpid() == mypid:
            shutil.rmtree(root, ignore_errors=True)

    atexit.register(_cleanup)
    return root


def main(argv=None):
    ap = argparse.ArgumentParser()
    ap.add_argument("prop")
    ap.add_argument("tier", nargs="?", default=os.environ.get("VERIF_TIER", "quick"))
    ap.add_argument("--replay")
    ap.add_argument("--workers", type=int, default=int(os.environ.get("VERIF_WORKERS", "0")) or (os.cpu_count() or 4))
    ap.add_argument("--no-evidence", action="store_true")
    a = ap.parse_args(argv)
    if a.tier not in ("quick", "thorough"):
        ap.error("tier must be quick|thorough")
    prop = a.prop.upper()
    scratch = _setup_env()
    repo = os.path.realpath(os.environ.get("VERIF_REPO", "/repo"))

    import aw_core

    if not os.path.realpath(aw_core.__file__).startswith(repo + os.sep):
        print(f"HARNESS-ERROR: aw_core imported from {aw_core.__file__}, expected under {repo}")
        return 2

    from mc import core

    mod = importlib.import_module(f"mc.props.{prop.lower()}")
    try:
        seed = int(os.environ.get("VERIF_SEED", "0") or 0)
    except ValueError:
        seed = 0

    if a.replay:
        with open(a.replay) as f:
            rp = json.load(f)
        if rp["case"].get("kind") == "impl-raised":
            # the implementation raised inside a work unit: replay = run the tier again and look for the key
            ctx = core.Ctx(prop, rp.get("tier", a.tier), rp.get("seed", seed), scratch, a.workers, repo)
            agg = mod.run(ctx)
            hit = [v for v in agg.violations if v["key"] == rp.get("key")]
            print(json.dumps({"property": prop, "key": rp.get("key"), "result": hit[:1]}, indent=1, default=str))
            print("REPLAY: " + ("violation reproduced" if hit else "no violation"))
            return 1 if hit else 0
        ctx = core.Ctx(prop, rp.get("tier", a.tier), rp.get("seed", seed), scratch, 1, repo)
        out = mod.run_case(ctx, rp["case"])
        print(json.dumps({"property": prop, "key": rp.get("key"), "result": out}, indent=1, default=str))
        bad = bool(out.get("violations"))
        print("REPLAY: " + ("violation reproduced" if bad else "no violation"))
        return 1 if bad else 0

    ctx = core.Ctx(prop, a.tier, seed, scratch, a.workers, repo)
    t0 = time.time()
    agg = mod.run(ctx)
    wall = time.time() - t0
    return core.finalize(ctx, mod, agg, wall, write_evidence=not a.no_evidence)


if __name__ == "__main__":
    try:
        rc = main()
    except SystemExit:
        raise
    except BaseException:
        import traceback

        traceback.print_exc()
        print("HARNESS-ERROR: unexpected exception in the harness (see traceback)")
        try:  # post-mortem trail for failures that only happen once in a while
            with open("/var/tmp/verif-harness-errors.log", "a") as f:
                f.write(f"--- {time.ctime()} argv={sys.argv} pid={os.getpid()} VERIF_REPO={os.environ.get('VERIF_REPO')}\n")
                f.write(traceback.format_exc())
        except Exception:
            pass
        rc = 2
    sys.stdout.flush()
    sys.exit(rc)
