"""Generates /verif/MANIFEST.json from the table below (python3 -m mc.manifest)."""
import json
import os

HERE = os.path.dirname(os.path.dirname(os.path.abspath(__file__)))

BASELINE_CMD = "cd /repo && /venv/bin/python -m pytest -ra -q -p no:cacheprovider --timeout=900 --continue-on-collection-errors"

# id -> (technique, level text, level note, design ref)
CHECKS = {
    "C02": (
        "explicit-state BFS to fixpoint over operation histories of the real stores, lock-step list model",
        "All reachable states of the real memory/sqlite/peewee stores under the event-op alphabet with <=K live events are enumerated (BFS to fixpoint; canonical form = raw table dump with rank-renamed ids + id-gap shape + hidden object state; 1 s and 1 ms lattices) and after every transition the full bucket (listing, lookup of live and dead ids, count, replace-last target, frame) is compared with a plain list model. Exhaustive within the alphabet and K; unit tests sample ~25 fixed scripts.",
        "Trusted: SQLite itself; the reference list model (60 lines); the canonical form (refined by id-gap shape and hidden object state after two seeded faults were merged away without them). Values outside the 6/18-event alphabet are not explored here.",
        "DESIGN.md 3.2, 4 C02",
    ),
}

CHECKS.update({
    "C03": (
        "bounded-exhaustive enumeration of bucket contents x windows x limits on the real stores, integer interval oracle",
        "Every multiset of <=2 (thorough 3) lattice events x every window (open-ended, zero-width, sub-ms shifted, tz-offset) x limits is stored in and read from each real backend in four time embeddings (1 s, 1 ms, 1 ms straddling a whole-second boundary, 6 h crossing midnight with 24 h events) and compared with closed-interval arithmetic under the statement's 2 ms tolerance; eventcount for every window. Complete per order type of the endpoints for n events.",
        "Trusted: the 40-line interval oracle; SQLite. Events within 2 ms of an edge are free by the statement. Events > 24 h and contents with > 3 events are not generated.",
        "DESIGN.md 3.4, 4 C03",
    ),
    "C04": (
        "explicit-state BFS over two-bucket histories of the real stores with exhaustive probe ops (all ids in the database) and a frame oracle",
        "All reachable states of a three-bucket database (A, B operated, <=2 live events each, instants coinciding across buckets) are enumerated on each real backend; in every state every operation is issued against A with every id present anywhere in the database or never-existed, plus update/delete bucket, plus 8 REJECTED operations issued while the last write of the history is still unobserved (buffered); every other bucket's listing and metadata must be identical afterwards.",
        "Trusted: SQLite; canonical form as in C02. Only the frame is compared (the op may succeed or raise).",
        "DESIGN.md 3.2, 4 C04",
    ),
    "C07": (
        "exhaustive enumeration of heartbeat streams fed through the real stores, compared with heartbeat_reduce after every heartbeat",
        "Every heartbeat stream of length <=4 (thorough 5) with strictly increasing starts and non-decreasing ends on a lattice (1 s; <=3 heartbeats also at 1 ms and 100 ms), 2 labels, pulsetimes below/at/above the gaps, is ingested by the standard loop into each real backend sharing its database with a bucket populated at every lattice instant; after every heartbeat the bucket equals heartbeat_reduce(prefix), earlier events are untouched, the other bucket is unchanged; a second phase interleaves every sequence of reads of / rejected operations on other buckets between the heartbeats without observing in between.",
        "Trusted: heartbeat_reduce of the working tree as oracle (itself checked against the hull rule by C08); SQLite.",
        "DESIGN.md 4 C07",
    ),
    "C05": (
        "explicit-state BFS to fixpoint over bucket lifecycle histories of the real stores (fresh and stale handles), dict model",
        "All reachable lifecycle states of two operated buckets (3 metadata variants, update subsets, delete/re-create, one event, handles kept across deletion) plus a passive bucket are enumerated on each real backend; in every state every op incl. all 31 update subsets (thorough; 7 quick) and every op on absent ids is applied; listing, metadata, events, error types (KeyError/ValueError) and 'changes nothing' (raw tables) are compared with a dict model. Canonical form includes hidden object state (handle cache, id->key caches).",
        "Trusted: SQLite; the dict model. Re-creating an existing id and default `name` are unspecified and not compared.",
        "DESIGN.md 4 C05",
    ),
    "C08": (
        "bounded-exhaustive enumeration of event pairs and ordered event lists on a time lattice, integer hull-rule reference and left fold",
        "heartbeat_merge is compared with the if-and-only-if hull rule on the full product of starts x durations (negative, zero, positive) x data equality x pulsetimes (0, fractional, integral) at 1 s and 1 ms; heartbeat_reduce is compared with the left fold of the reference rule on every ordered sequence of <=4 lattice events (32-value alphabet), plus normal-form, idempotence and coverage checks. Complete per order type of endpoints for the stated lengths.",
        "Trusted: the 10-line integer reference rule. Lists longer than the bound and non-lattice instants are not explored (the functions only compare and add instants).",
        "DESIGN.md 3.4, 4 C08",
    ),
    "C10": (
        "bounded-exhaustive enumeration of non-overlapping event sequences x labels x pulsetimes x input orders, unit-cell oracle",
        "flood is run on every sequence of <=3 (lattice 0..9) and 4 (0..6) non-overlapping events with distinct starts, every 2-label assignment, pulsetimes below/at/above the gaps (incl. fractional at 1 ms) and every input permutation; outputs must be positive-length, non-overlapping, cover all input cells per label, close exactly the gaps <= pulsetime and leave the input untouched.",
        "Trusted: the cell oracle (40 lines). 'Non-overlapping' is read as no negative gap between consecutive events.",
        "DESIGN.md 3.4, 4 C10",
    ),
    "C09": (
        "bounded-exhaustive enumeration of pairs of interval lists on a time lattice, integer interval oracle",
        "filter_period_intersect is run on the full product of internally non-overlapping lists of <=3 lattice events (zero-length events anywhere, duplicates, sorted and reversed input) and compared as a multiset of (piece, data, id) with max/min arithmetic, inputs compared before/after; period_union on every multiset of <=4 arbitrary events x splits x orders, compared as closed-interval point sets on a half-unit grid with sortedness and strictly positive gaps.",
        "Trusted: the interval oracle; timeslot library is exercised as part of the implementation. Lists longer than the bound are not explored.",
        "DESIGN.md 3.4, 4 C09",
    ),
    "C15": (
        "bounded-exhaustive enumeration of pairs of sorted non-overlapping interval lists, unit-cell oracle",
        "union_no_overlap is run on the full product of sorted, internally non-overlapping lists of <=3 lattice events on 0..5 (zero-length events, shared edges, containment both ways, one spanning many); list one must come back unchanged and in order, each list-two event's pieces must cover exactly its cells outside list one, no two outputs overlap, inputs untouched.",
        "Trusted: the cell oracle. Zero-length list-two events may or may not be returned.",
        "DESIGN.md 3.4, 4 C15",
    ),
    "C16": (
        "bounded-exhaustive enumeration of event lists over all (presence, value) combinations of keys x ordered key lists, conservation/partition oracles",
        "merge_events_by_keys is run on every list of <=4 events over the 16 data shapes (keys a,b each absent/x/y/[x]) with durations 2^i (a summed duration identifies its group) x 10 ordered key lists and compared with the group-by of (presence, value); chunk_events_by_key on every key-bearing sequence of <=4 events (concatenation, value-homogeneous runs, summed durations, maximal runs); sort/limit/filter/exclude on full products (ordered permutation, prefix, complementary sub-sequences); inputs compared before/after.",
        "Trusted: the reference group-by. Empty key list, nested list values and dict values are outside the alphabet.",
        "DESIGN.md 3.4, 4 C16",
    ),
    "C19": (
        "bounded-exhaustive enumeration of rule lists x event shapes, reference matcher written without `re`",
        "categorize and tag are run with every ordered rule list of <=2 rules over 288 rules (4 categories with depth ties x 6 regexes incl. empty/unicode x ignore_case x 6 select_keys forms) and every list of 3 over 24 rules, on 8 event shapes (matching strings in different keys, non-string values holding matching text, missing keys, pre-existing $keys); deepest-later-wins and rule-order tags are compared with a reference; split_url_events over a 96-URL component product and simplify_string over a 240-title product with hand-written references; length, order, timestamps, durations and unrelated data compared.",
        "Trusted: the reference matcher (literal/anchored tests). Regexes beyond literals and '^x' are outside the alphabet.",
        "DESIGN.md 3.4, 4 C19",
    ),
    "C13": (
        "exhaustive sweep of all 10^6 sub-second values plus a structured numeric grid of instants/offsets/representations/durations, integer and rational oracle",
        "All 10^6 microsecond values of one second are pushed through both the datetime and the ISO-string path of Event and compared with the integer millisecond floor; anchor instants 1970..2100 incl. float binade edges x 6 UTC offsets x 4 representations x constructor/setter; a duration grid (int, timedelta at us granularity up to 30 d and 2^41 us, floats) compared with exact rationals; JSON form validated against event.json (draft-4, format checker) and round-tripped for a data catalogue and id kinds.",
        "Trusted: Python datetime/Fraction arithmetic, jsonschema. Exhaustive over the grid, not over the 10^15-instant space (see DESIGN 5).",
        "DESIGN.md 3.4, 4 C13",
    ),
    "C20": (
        "bounded-exhaustive enumeration of (default, user) TOML document pairs over a path universe, recursive-overlay oracle on real files",
        "Every default document (each of 4 paths nested up to 3 tables absent/int/array; thorough also string) x every user document (per path absent/same/other int/float equal in value/string, thorough also bool/array; x 5 structural variants: scalar-over-table, table-over-scalar, user-only keys) is rendered in three TOML styles, written to a real config file and loaded by load_config_toml; result compared type-strictly with a recursive overlay; file bytes compared; first-run file written and reloaded twice for every default document.",
        "Trusted: tomlkit as TOML reader; the 10-line overlay. Arrays of tables and multi-line values are outside the grammar. One open known finding (inline-table defaults + user sub-table raises).",
        "DESIGN.md 3.4, 4 C20",
    ),
    "C01": (
        "exhaustive enumeration of a structured numeric grid of events through the real stores (listing + lookup), exact integer comparison; tiny exhaustive write x mutate x read histories for ownership",
        "Every event of a grid built around where float arithmetic changes behaviour (binade edges of seconds and of microseconds x ALL 1000 millisecond values x durations at us granularity, ~180 anchors 1970..2100, tz offsets, 34-entry JSON data catalogue) is inserted singly and in bulk into each real backend and read back by listing and by id; instants, durations and data are compared exactly. Ownership: every history write-op (5) x mutated field (5) x read-op (3) x mutated object (passed in / handed out by listing / by lookup), plus metadata/buckets()/create/update dict aliasing histories.",
        "Trusted: SQLite, Python integer datetime arithmetic. Exhaustive over the grid only (see DESIGN 5); two repaired defects (sqlite float us, memory aliasing).",
        "DESIGN.md 3.4, 4 C01",
    ),
    "C06": (
        "explicit-state BFS over write/read/bucket/clock histories of the real file-backed stores with exhaustive crash-point enumeration (image before every SQL statement and at every return), prefix-chain model",
        "All reachable commit-protocol states of the real sqlite store (uncommitted counter 0..50 x elapsed class x enabledness) are enumerated to fixpoint under ~20 operations incl. bulk inserts of 2/49/50/51 rows, upsert-only batches and REJECTED operations (update/delete of an absent bucket, bulk insert through a stale handle or with unserialisable data); for every transition the database files are imaged before every SQL statement of the operation and at its return, reopened the way a restarted process would (real constructor), and compared with the chain of model states: must be a prefix in issue order, durability never regresses, single-event/bucket-level ops are never split, bucket ops and reads flush, at most 64 elementary writes (deletions counted, explored from a 70-event bucket) are missing at return; peewee: every completed op durable. The imaging method is validated against real SIGKILL / exit-without-shutdown of a forked child at 24 points per run.",
        "Trusted: SQLite's atomic commit; process death (not power loss). Content of events is abstracted in the canonical form (cannot influence the commit decision).",
        "DESIGN.md 3.3, 4 C06",
    ),
    "C18": (
        "explicit-state BFS over write/clock histories of the real sqlite store under an owned virtual clock, crash image at every return",
        "With the storage module's clock replaced by a virtual one, all histories of <=8 operations (thorough: to fixpoint) over event writes, reads, bucket ops and clock steps (+5/+6 s; elapsed 10 / 11 / >=12) are explored with state dedup; after any event write that returns more than 11 virtual seconds after the previous flush the crash image must contain it. One wall-clock trace (insert, sleep 11.5 s, insert) per run validates the virtual clock against the real one.",
        "Trusted: the harness owns the only clock the commit logic reads (self-checked). 'About ten seconds' = 11 s with slack.",
        "DESIGN.md 3.3, 4 C18",
    ),
    "C14": (
        "exhaustive enumeration of legacy-database configurations, real legacy store -> real migration -> bucket-by-bucket comparison",
        "Every configuration of the product {subset of 3 bucket ids incl. unicode} x {0,1,3,101 events per bucket} x {no/flat/nested bucket data} x {name absent/given} x {testing/normal profile} x {other profile's legacy file present/absent} (768 cases) is written by the real PeeweeStorage at its default path in a private data dir; the default SqliteStorage is then constructed beside it (triggering the migration) and compared: ids, metadata, multiset of (instant, duration, data) per bucket, legacy file bytes, and a second start.",
        "Trusted: the working tree's PeeweeStorage as the legacy writer. Legacy files written by other versions are not available offline.",
        "DESIGN.md 4 C14",
    ),
    "C11": (
        "bounded-exhaustive enumeration of query programs from the grammar (AST-first) x separator-spacing styles, reference parser + reference evaluator",
        "All calls of probe functions with 0-3 arguments over 35 argument shapes (ints, strings containing commas/brackets/'='/escaped quotes -- bare and nested inside lists, nested lists, dict values and dict keys --, empty and nested lists/dicts, calls, variables) x 12 contexts (top level, list element, dict value, argument, bound/rebound/aliased variables, RETURN rebound / followed by further or failing statements) x 40 spacing styles (3 styles for 3-argument calls in the quick tier); all list/dict literals of depth <=2; every registered built-in with well-typed argument pools given as literal, variable and nested call. Each printed program is re-parsed by an independent reference parser to the same AST, run through aw_query.query2.query and compared with a reference evaluator over the AST (~1.3 M executions quick).",
        "Trusted: the 90-line reference parser/evaluator. Built-ins are compared with the same aw_transform function applied to the reference argument values. Text outside the stated grammar is C17's subject.",
        "DESIGN.md 3.5, 4 C11",
    ),
    "C17": (
        "exhaustive enumeration of all strings up to a length bound over a token alphabet, all single-edit corruptions of a program corpus, and all arity/type combinations of every built-in",
        "ALL strings of <=5 symbols over a 19-symbol alphabet (letter, digit, both quotes, all brackets, separators, space, backslash, minus, a function name, a non-ASCII digit) in three contexts (7.4 M texts), every single-edit corruption of a 30-program corpus, and every built-in with 0..arity+1 arguments x 6 top-level types per position (expected types from a table in the check, not from the implementation's annotations) are run under a 5 s alarm (and a per-worker progress record that names a text stuck in uninterruptible C code); outcome must be a value or a QueryException subclass (class checked for the resolution part); exceptions raised while a transform/q2_* body executes are counted as deep data-shape errors and not flagged.",
        "Trusted: the exception-origin classification by traceback frames. Strings longer than the bound are covered only through the corruption corpus.",
        "DESIGN.md 3.5, 4 C17",
    ),
    "C12": (
        "bounded-exhaustive enumeration of query pipelines x query windows on seeded real stores, whole-store before/after comparison",
        "Every pipeline of depth <=2 of built-ins over query_bucket(b1|b2) (15 unary forms incl. all in-place annotators and the data-clearing period_union, 4 binary forms, aliasing forms), each also with a raising statement appended (unknown function / wrong type / unknown bucket / undefined variable), x 12 query windows (zero-width, empty, sub-ms shifted, tz-offset forms) is run on each real backend; the complete store (every event of every bucket + metadata) is dumped before and after every query; query_bucket and query_bucket_eventcount are compared with direct windowed reads for every window and bucket, also as a SECOND fetch after an in-place transform within the same query.",
        "Trusted: the dump through the public API (C01/C02 check it). Programs beyond depth 2 (thorough 3) are not explored.",
        "DESIGN.md 3.5, 4 C12",
    ),
})

NOT_YET = {}


def build():
    props = [json.loads(l) for l in open(os.path.join(HERE, "properties.jsonl"))]
    checks = []
    na = []
    for p in props:
        pid = p["id"]
        if pid in CHECKS:
            tech, text, note, ref = CHECKS[pid]
            checks.append(
                {
                    "property_id": pid,
                    "quick_cmd": f"./check {pid} quick",
                    "thorough_cmd": f"./check {pid} thorough",
                    "evidence_file": f"/verif/evidence/{pid}.json",
                    "replay_cmd_template": f"./check {pid} --replay {{path}}",
                    "engine": "mc",
                    "level_claimed": {"category": "model_checking", "text": text, "design_ref": ref},
                    "level_note": note,
                    "technique": tech,
                }
            )
        else:
            na.append({"property_id": pid, "reason": NOT_YET.get(pid, "check not built yet in this round (planned in DESIGN.md section 4); not claimed until its explorer exists and is silent on the unchanged tree")})
    m = {
        "version": 1,
        "setup_cmd": "cd /verif && chmod +x check && /venv/bin/python -B -c \"import jsonschema, peewee, tomlkit, iso8601, timeslot\"",
        "hooks": {
            "guard": "AW_CORE_VERIF",
            "enable": "no source hooks are needed: checks import /repo's working tree (pure Python) and inject clock/SQL tracing from the harness; ./check exports AW_CORE_VERIF=1 for uniformity",
            "baseline_off_cmd": BASELINE_CMD,
            "source_commits": [],
            "add_only": True,
        },
        "engines": [
            {
                "name": "mc",
                "path": "/verif/mc",
                "serves_properties": [c["property_id"] for c in checks],
                "kind_free_text": "hand-written explicit-state / bounded-exhaustive explorers that execute the real aw-core code (BFS over operation histories with canonical-state dedup; crash-point and virtual-clock enumeration; lattice enumeration of interval inputs; grammar enumeration of query programs), each compared step by step with a small reference model",
            }
        ],
        "checks": checks,
        "not_applicable": na,
        "notes": "All checks: ./check <ID> quick|thorough ; replay: ./check <ID> --replay <file>. VERIF_SEED selects the embedding (base instant, labels, partition order), never which cases run. Known findings: /verif/known_findings.json.",
    }
    return m  # "not_applicable" stays in the file even when empty: every listed property is claimed


if __name__ == "__main__":
    m = build()
    import jsonschema

    jsonschema.validate(m, json.load(open("/root/.vp/MANIFEST.schema.json")))
    with open(os.path.join(HERE, "MANIFEST.json"), "w") as f:
        json.dump(m, f, indent=1)
        f.write("\n")
    print("MANIFEST.json written:", len(m["checks"]), "checks,", len(m.get("not_applicable", [])), "not claimed")
