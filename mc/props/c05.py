"""C05 -- bucket lifecycle: create, list, describe, update, delete behave as a keyed map.

Explorer S to fixpoint over lifecycle histories (create with 3 metadata variants,
update, delete, insert event, through fresh and STALE handles) of the real
stores against a dict model; from every reachable state every op (incl. all 31
field subsets for update, and every op on absent buckets) is applied and the
full listing / metadata / events are compared, error types checked, and
"changes nothing" checked on the raw tables."""
from copy import deepcopy
import itertools
import json
from datetime import datetime, timedelta, timezone

import iso8601
from mc import engine
from mc.core import Agg, Unit
from mc.drivers import stores as S
from mc.lattice import Emb

FIELDS = ("type", "client", "hostname", "name", "data")
A1 = "1"  # the fully operated bucket's id is a numeric string (equal, as a number, to the row key of the passive bucket created first)
B2 = "B'\"%;--"  # the second operated bucket's id carries SQL-special characters
P0 = "1 "  # the passive bucket's id differs from A1 by trailing whitespace only (seeded: lookup strips the id)
ALL_SUBSETS = [c for k in range(1, 6) for c in itertools.combinations(FIELDS, k)]
QUICK_SUBSETS = [("type",), ("client",), ("hostname",), ("name",), ("data",), ("type", "data"), FIELDS]
EXTEND_SUBSETS = (FIELDS, ("data",))
BOUNDS = {
    "quick": {"operated_buckets": ["A", "B (create variant 1 / delete / insert only)"], "passive_bucket": "P (2 events, created first)", "create_variants": 3, "update_subsets_checked": len(QUICK_SUBSETS), "update_subsets_extended": 2, "events_per_bucket": "0..1"},
    "thorough": {"operated_buckets": ["A", "B (create variant 1 / delete / insert only)"], "passive_bucket": "P", "create_variants": 3, "update_subsets_checked": 31, "update_subsets_extended": 2, "events_per_bucket": "0..1"},
}
RULE = (
    "BFS to fixpoint over lifecycle histories: create(b, 3 metadata variants incl. created at +00:00/+05:30/-08:00, name given or not, nested data), update(b, field subset) with fresh non-empty values, delete(b), insert one event, each also through a stale handle obtained at first creation; "
    "in every state additionally: all field subsets for update, lookup/describe/update/delete of absent buckets (error type + raw state unchanged), reads through stale handles of deleted buckets (raw state unchanged); "
    "non-trivial = transitions in states reached after at least one delete (re-creation, stale handles, row-key reuse)"
)
ASSUMPTIONS = [
    "re-creating an existing id is unspecified by the statement and not generated",
    "`name` is compared only when it was given (backends differ on the default)",
    "`created` is compared as an instant (string formats differ per backend)",
    "for event operations through a stale handle of a deleted bucket only 'nothing changed' is required (exception type not fixed by the statement)",
]
_G = {}
CREATED = datetime(2021, 3, 4, 5, 6, 7, 123000, tzinfo=timezone.utc)
TZ = [timezone.utc, timezone(timedelta(hours=5, minutes=30)), timezone(-timedelta(hours=8))]


def variant(b, m):
    kw = dict(type=f"type-{b}-{m}", client=f"client-{b}-{m}", hostname=f"host-{b}-{m}", created=(CREATED + timedelta(days=m)).astimezone(TZ[m]))
    if m == 1:
        kw["name"] = "n-1"
        kw["data"] = {"k": "v"}
    if m == 2:
        kw["name"] = "ü name"
        kw["data"] = {"a": {"b": [1, 2, {"c": None}]}, "s": 'q"uote'}
    return kw


def model_meta(b, m):
    kw = variant(b, m)
    md = {"id": b, "type": kw["type"], "client": kw["client"], "hostname": kw["hostname"], "created": S.us_of(kw["created"]), "data": kw.get("data") or {}}
    if "name" in kw:
        md["name"] = kw["name"]
    return md


def fresh_value(field, cur):
    if field == "data":
        v1, v2 = {"u": [1]}, {"u": {"two": 2}}
    else:
        v1, v2 = f"{field}-u1", f"{field}-u2"
    return v2 if cur == v1 else v1


def norm_meta(md):
    out = {"id": md["id"], "type": md["type"], "client": md["client"], "hostname": md["hostname"], "data": deepcopy(md.get("data"))}
    c = md["created"]
    out["created"] = S.us_of(iso8601.parse_date(c) if isinstance(c, str) else c)
    out["name"] = md.get("name")
    return out


def observe(ds):
    """full API-level state: {bid: (meta, sorted event contents)}; also cross-checks listing vs metadata()"""
    probs = []
    try:
        lst = ds.buckets()
    except Exception as e:  # the listing itself must not fail, whatever was stored before
        return {}, [("listing-raised", f"buckets() raised {type(e).__name__}: {e}")]
    out = {}
    for bid in lst:
        m1 = norm_meta(lst[bid])
        # ... and the harness scribbles on what it was handed: a description is the caller's to keep, so the
        # next describe / listing must not show the scribble (seeded: parsed bucket data shared through a cache)
        try:
            if isinstance(lst[bid].get("data"), dict):
                lst[bid]["data"]["__scribble__"] = [bid]
            lst[bid]["type"] = "scribbled"
        except Exception:
            pass
        try:
            raw_md = ds[bid].metadata()
            m2 = norm_meta(raw_md)
            if isinstance(raw_md.get("data"), dict):
                raw_md["data"]["__scribble2__"] = 1
        except Exception as e:
            probs.append(("describe-listed-bucket-raised", f"{bid}: {type(e).__name__} {e}"))
            m2 = m1
        if m1 != m2:
            probs.append(("listing-vs-describe-differ", f"{bid}: {m1} vs {m2}"))
        try:
            evs = sorted(t[1:] for t in S.dump_bucket(ds, bid))
            n = ds[bid].get_eventcount()
            if n != len(evs):
                probs.append(("count-mismatch", f"{bid}: count {n} listing {len(evs)}"))
        except Exception as e:
            probs.append(("read-listed-bucket-raised", f"{bid}: {type(e).__name__} {e}"))
            evs = None
        out[bid] = (m1, evs)
    return out, probs


def diff_model(obs, model):
    probs = []
    if set(obs) != set(model):
        probs.append(("listing-wrong", f"listed {sorted(obs)} expected {sorted(model)}"))
    for b in set(obs) & set(model):
        m, evs = obs[b]
        want = model[b]["meta"]
        for k in ("id", "type", "client", "hostname", "created", "data"):
            if m[k] != want[k]:
                probs.append((f"metadata-{k}-wrong", f"{b}.{k} = {m[k]!r} expected {want[k]!r}"))
        if "name" in want and m["name"] != want["name"]:
            probs.append(("metadata-name-wrong", f"{b}.name = {m['name']!r} expected {want['name']!r}"))
        if evs != sorted(model[b]["events"]):
            probs.append(("events-wrong", f"{b} events {evs} expected {sorted(model[b]['events'])}"))
    return probs


class World:
    def __init__(self, backend, wdir):
        self.ds = S.fresh(backend, wdir)
        emb = _G["emb"]
        S.mk_bucket(self.ds, P0)
        self.ds[P0].insert([emb.ev(0, 1, "p"), emb.ev(1, 0, "p")])
        self.model = {P0: {"meta": norm_meta(self.ds[P0].metadata()), "events": sorted(t[1:] for t in S.dump_bucket(self.ds, P0))}}
        self.stale = {}
        self.deletes = 0
        self.nev = 0


def ev_content(emb, b):
    # the content is a function of the bucket only, so the state space stays finite
    n = {A1: 0, B2: 1}.get(b, 2)
    e = emb.ev(n % 3, (n + 1) % 2, f"e{n}")
    return e, (S.us_of(e.timestamp), S.dus_of(e.duration), S.canon_data(e.data))


def apply(w, op):
    """apply op to the real store and to the model; returns (expected_exc or None, got_exc or None, must_be_unchanged)"""
    ds, model = w.ds, w.model
    k, b = op[0], op[1]
    present = b in model
    want_exc = None
    unchanged = False
    got = None
    try:
        if k == "restart":
            # orderly restart: a NEW Datastore object over the same file -- no handle is registered in it and
            # the driver's old handles are gone (seeded: delete_bucket assumed a registered handle; a lookup
            # registered handles for all listed buckets under the looked-up id)
            w.ds = ds = S.reopen(ds, flush=True)
            w.stale = {}
        elif k == "create":
            h = ds.create_bucket(b, **variant(b, op[2]))
            w.stale.setdefault(b, h)
            model[b] = {"meta": model_meta(b, op[2]), "events": []}
        elif k == "update":
            kw = {}
            cur = model[b]["meta"] if present else {}
            for f in op[2]:
                kw["type_id" if f == "type" else f] = fresh_value(f, cur.get(f))
            if not present:
                want_exc, unchanged = "ValueError", True
            ds.update_bucket(b, **kw)
            if present:
                for f in op[2]:
                    model[b]["meta"][f] = kw["type_id" if f == "type" else f]
        elif k == "delete":
            if not present:
                want_exc, unchanged = "ValueError", True
            else:
                del model[b]
                w.deletes += 1
            ds.delete_bucket(b)
        elif k == "lookup":
            if not present:
                want_exc, unchanged = "KeyError", True
            else:
                unchanged = True
            h = ds[b]
            w.stale.setdefault(b, h)  # (only new after a restart: the first handle seen in this process)
        elif k == "describe":
            unchanged = True
            if not present:
                want_exc = "ValueError"
            md = (w.stale[b] if op[2] == "stale" else ds[b]).metadata()
            # what a handle -- also one obtained before a delete / re-create -- describes is the bucket as it is NOW
            w.described = norm_meta(md)
        elif k == "insert":
            e, c = ev_content(_G["emb"], b)
            if present:
                model[b]["events"] = model[b]["events"] + [c]
            else:
                unchanged = True
                want_exc = "any"
            (w.stale[b] if op[2] == "stale" else ds[b]).insert(e)
        elif k == "read":
            unchanged = True
            if not present:
                want_exc = "any"
            h = w.stale[b] if op[2] == "stale" else ds[b]
            w.read_events = sorted(S.ev_tuple(e)[1:] for e in h.get(-1))
            w.read_count = h.get_eventcount()
        else:
            raise AssertionError(op)
    except Exception as e:
        got = type(e).__name__
        w.last_exc = f"{type(e).__name__}: {e}"
    return want_exc, got, unchanged


def enabled(w, subsets, extend):
    """-> list of (op, extends_state)"""
    ops = []
    if _G["cfg"].get("restart") and getattr(w.ds, "_verif_backend", "memory") != "memory" and (w.stale or getattr(w.ds, "bucket_instances", None)):
        ops.append((("restart", None), True))
    for b in _G["buckets"]:
        present = b in w.model
        limited = b != A1
        if not present:
            for m in ((1,) if limited else (0, 1, 2)):
                ops.append((("create", b, m), True))
            # operations on an absent bucket must change nothing -- so extending a history with them
            # costs no new states on a correct tree, while a tree on which a FAILED lookup / update /
            # delete leaves something behind (a cached handle, an open transaction) gets explored from there
            ops.append((("update", b, ("type",)), True))
            ops.append((("update", b, FIELDS), False))
            ops.append((("delete", b), True))
            ops.append((("lookup", b), True))
            if b in w.stale:
                ops.append((("describe", b, "stale"), True))
                ops.append((("insert", b, "stale"), True))
                ops.append((("read", b, "stale"), True))
        else:
            ops.append((("delete", b), True))
            # reads extend histories too: on the unchanged tree they lead back to the same canonical
            # state (or only flush sqlite's buffered writes), but a read that populates a cache is a
            # new state from which delete / re-create must still behave (seeded stale read-side cache)
            ops.append((("lookup", b), True))
            ops.append((("describe", b, "fresh"), True))
            if b in w.stale:
                ops.append((("describe", b, "stale"), True))
                ops.append((("read", b, "stale"), True))
            else:
                ops.append((("read", b, "fresh"), True))
            if len(w.model[b]["events"]) < 1:
                ops.append((("insert", b, "fresh"), True))
                if b in w.stale:
                    ops.append((("insert", b, "stale"), True))
            if not limited:
                for s in subsets:
                    ops.append((("update", b, s), s in extend))
    return ops


def handle_state(w):
    """plain attributes of the Bucket handle objects (registered ones and the stale ones the driver
    keeps): a handle that remembers something (seeded: cached metadata) is state as well"""
    out = []
    for tag, d in (("registered", getattr(w.ds, "bucket_instances", {})), ("stale", w.stale)):
        for name in sorted(d):
            h = d[name]
            attrs = {k: v for k, v in vars(h).items() if k not in ("ds", "logger")}
            # ... and whether the handle the driver kept IS the one the datastore has registered now
            # (after delete + re-create it is not; the states were merged without this bit)
            same = tag == "stale" and getattr(w.ds, "bucket_instances", {}).get(name) is h
            out.append((tag, name, S._plain(attrs), same))
    return tuple(out)


def replay(backend, wdir, hist):
    w = World(backend, wdir)
    for op in hist:
        apply(w, op)
    return w


def raw(ds):
    return (S.raw_buckets(ds), S.raw_rows(ds))


def check_op(w, op):
    ds = w.ds
    raw0 = raw(ds)
    w.described = w.read_events = w.read_count = None
    want, got, unchanged = apply(w, op)
    ds = w.ds  # (a restart replaces the Datastore object)
    # canonical form of the state a replay of (history + op) reconstructs: taken BEFORE the
    # observation below, whose reads may themselves change hidden state (flush, fill caches)
    w.canon_after = (S.canon_full(ds, False), tuple(sorted(w.stale)), handle_state(w))
    probs = []
    if want == "any":
        pass
    elif want != got:
        if want is None:
            probs.append((f"{op[0]}-raised-{got}", f"{op} raised {getattr(w, 'last_exc', got)}"))
        else:
            probs.append((f"{op[0]}-absent-wrong-error", f"{op} on a bucket that does not exist: expected {want}, got {got or 'no exception'}"))
    if op[0] == "describe" and got is None and op[1] in w.model and w.described is not None:
        wantm = w.model[op[1]]["meta"]
        for k in ("id", "type", "client", "hostname", "created", "data"):
            if w.described[k] != wantm[k]:
                probs.append((f"described-{k}-wrong-via-{op[2]}-handle", f"{op}: handle describes {k} = {w.described[k]!r}, the bucket's is {wantm[k]!r}"))
                break
        if "name" in wantm and w.described["name"] != wantm["name"]:
            probs.append((f"described-name-wrong-via-{op[2]}-handle", f"{op}: {w.described['name']!r} vs {wantm['name']!r}"))
    if op[0] == "read" and got is None and op[1] in w.model and w.read_events is not None:
        if w.read_events != sorted(w.model[op[1]]["events"]) or w.read_count != len(w.model[op[1]]["events"]):
            probs.append((f"read-wrong-via-{op[2]}-handle", f"{op}: handle reads {w.read_events} (count {w.read_count}), the bucket holds {sorted(w.model[op[1]]['events'])}"))
    if unchanged and raw(ds) != raw0:
        probs.append((f"{op[0]}-changed-state", f"{op} must change nothing but the tables changed"))
    obs, p2 = observe(ds)
    probs += p2
    probs += diff_model(obs, w.model)
    return probs


def _expand(hist):
    c = _G["cfg"]
    backend = c["backend"]
    ctx = _G["ctx"]
    u = Unit()
    wdir = ctx.wdir()
    w = replay(backend, wdir, hist)
    self_canon = (S.canon_full(w.ds, False), tuple(sorted(w.stale)), handle_state(w))
    ops = enabled(w, c["subsets"], EXTEND_SUBSETS)
    succ = []
    for op, ext in ops:
        w = replay(backend, wdir, hist)
        probs = check_op(w, op)
        u.transitions += 1
        u.evaluations += 1
        u.traces += 1
        u.hist[op[0] + ("_absent" if op[0] != "create" and op[1] not in w.model and op[0] != "delete" else "")] += 1
        if w.deletes > 0 or (len(op) > 2 and op[2] == "stale"):
            u.nontrivial += 1
        if probs:
            for sym, det in probs[:2]:
                case = {"backend": backend, "history": [list(o) for o in hist], "op": list(op), "buckets": list(_G["buckets"])}
                u.violation(f"{backend}:{sym}", f"{backend} history {list(hist)} op {op}: {det}", case, size=len(hist) * 100 + len(json.dumps(case)))
        elif ext:
            succ.append((w.canon_after, tuple(hist) + (op,)))
    if len(hist) == 2:
        u.sample({"backend": backend, "history": [list(o) for o in hist], "ops_applied_from_here": [list(o) for o, _ in ops][:6]}, cap=1)
    r = u.result()
    r.update({"self": self_canon, "succ": succ, "path": tuple(hist)})
    return r


def _cfg(ctx):
    _G["ctx"] = ctx
    _G["emb"] = Emb(ctx.base, 1_000_000)
    _G["buckets"] = (A1, B2)


def run(ctx):
    from mc.props.c02 import _merge

    _cfg(ctx)
    total = Agg()
    per = {}
    for backend in S.BACKENDS:
        _G["cfg"] = {"backend": backend, "subsets": ALL_SUBSETS if ctx.thorough else QUICK_SUBSETS}
        agg, seen = engine.bfs(ctx, _expand, [()], label=backend, max_states=20000, cap_s=5400 if ctx.thorough else 1800)
        per[backend] = {"states": agg.states, "transitions": agg.transitions, "max_depth": agg.max_depth}
        _merge(total, agg)
    # restarts (a new Datastore object over the same file, nothing registered in it) are explored in a
    # configuration of their own with one operated bucket beside the passive one, so that the main
    # search keeps its size
    for backend in ("sqlite", "peewee"):
        _G["buckets"] = (A1,)
        _G["cfg"] = {"backend": backend, "subsets": [("type",), ("type", "data")], "restart": True}
        agg, seen = engine.bfs(ctx, _expand, [()], label=backend + "/restart", max_states=20000, cap_s=5400 if ctx.thorough else 1800)
        per[backend + "/restart"] = {"states": agg.states, "transitions": agg.transitions, "max_depth": agg.max_depth}
        _merge(total, agg)
    _G["buckets"] = (A1, B2)
    total.extra["per_backend"] = per
    ctx.selfcheck(total.nontrivial > 0, "no transition after a delete")
    for need in ("create", "delete", "update", "lookup_absent", "describe_absent", "update_absent", "insert"):
        ctx.selfcheck(total.hist.get(need, 0) > 0, f"vacuous: op class {need} never applied")
    return total


def totup(x):
    return tuple(totup(i) for i in x) if isinstance(x, list) else x


def run_case(ctx, case):
    _cfg(ctx)
    _G["buckets"] = tuple(case.get("buckets", (A1,)))
    hist = totup(case["history"])
    op = totup(case["op"])
    w = replay(case["backend"], ctx.wdir(), hist)
    before, _ = observe(w.ds)
    probs = check_op(w, op)
    after, _ = observe(w.ds)
    return {"before": before, "op": op, "after": after, "model": w.model, "violations": [list(p) for p in probs]}
