"""C02 -- every backend behaves like one per-bucket event list under any history.

Explorer S: BFS to fixpoint over all histories of the event-op alphabet on one
bucket (cap K live events) of each real backend, reference model stepped in
lock-step, compared after EVERY transition (listing, lookup by id for live and
dead ids, count, replace-last target == preceding limit-1 read, frame)."""
import json

from mc import engine
from mc.core import Agg, Unit
from mc.drivers import stores as S
from mc.lattice import Emb
from mc.ref import bucketlist as BL

E6 = ((0, 1, 0), (1, 0, 0), (1, 0, 1), (1, 1, 1), (0, 2, 0), (2, 0, 1))
E4 = ((0, 1, 0), (1, 0, 0), (1, 0, 1), (0, 2, 0))
E18 = tuple((s, d, l) for s in (0, 1, 2) for d in (0, 1, 2) for l in (0, 1))
PASSIVE = ((0, 1), (1, 0), (2, 0), (0, 2), (1, 1), (3, 0), (0, 3), (2, 1))

BOUNDS = {
    "quick": {"configs": [{"alphabet": "E4", "K": 3, "shaped": True}, {"alphabet": "E4", "K": 2, "shaped": False, "unit_us": 1000}, {"alphabet": "E4", "K": 2, "shaped": False, "unit_us": 2_060_851_507, "why": "a lattice unit of 2060.851507 s: durations whose float seconds times 1e6 truncate one microsecond short (seeded: the sqlite bulk-upsert path converted through floats)"}], "backends": list(S.BACKENDS), "passive_bucket_events": len(PASSIVE)},
    "thorough": {"configs": [{"alphabet": "E6", "K": 3, "shaped": True}, {"alphabet": "E6", "K": 3, "shaped": False, "unit_us": 1000}, {"alphabet": "E6", "K": 4, "shaped": False}, {"alphabet": "E18", "K": 3, "shaped": False}], "backends": list(S.BACKENDS), "passive_bucket_events": len(PASSIVE)},
}
RULE = (
    "BFS to fixpoint over all histories of {insert, bulk insert pair, bulk upsert, mixed bulk, replace(id), replace_last, delete(id), delete(never-existed)} "
    "with event values from the alphabet and ids ranging over all live ids, at most K live events; states deduplicated on the implementation's raw table dump with rank-renamed ids, refined (configs marked shaped) by the id-gap pattern and hidden allocator counter so that allocator-dependent behaviour is explored from every gap shape; "
    "a transition is non-trivial when its pre-state holds >=2 events tying in start or end instant, or the op addresses an id that is not the most recently inserted one"
)
ASSUMPTIONS = [
    "single insert of an event that already carries an id is not in the alphabet (statement lists bulk upsert only)",
    "return values of replace/delete are not compared; id reuse after deletion is allowed (statement forbids reuse for a different LIVE event)",
    "rank-renaming of ids in the canonical form assumes behaviour depends on ids only through equality and order; shaped configs drop most of that assumption by keeping states with different id-gap patterns / hidden AUTOINCREMENT counter apart (a seeded len()-based allocator was missed without it)",
    "event values outside the alphabet (3 starts x 3 durations x 2 labels) are not covered here; C01/C13 cover value fidelity",
]

_G = {}


def _labels(ctx):
    return {0: ctx.labels[0], 1: ctx.labels[1], "P": ctx.labels[2]}


def _ev(e):
    return (e[0], e[1], _G["lab"][e[2]])


def _emb_ev(E):
    return tuple(_ev(e) for e in E)


def _canon(ds):
    return S.canon_full(ds, _G["cfg"].get("shaped"))


def setup(backend, wdir):
    emb = _G["emb"]
    ds = S.fresh(backend, wdir)
    S.mk_bucket(ds, "passive")
    ds["passive"].insert([emb.ev(s, d, _G["lab"]["P"]) for s, d in PASSIVE])
    S.mk_bucket(ds, "A")
    if backend != "memory":  # ids are global in the SQL backends: the passive bucket's ids are foreign to A
        BL.FOREIGN_ID[0] = max(t[0] for t in S.dump_bucket(ds, "passive"))
    else:
        BL.FOREIGN_ID[0] = None
    return ds


def replay(backend, wdir, hist):
    ds = setup(backend, wdir)
    m = BL.BModel()
    for op in hist:
        x = BL.perform(ds, "A", m, op, _G["emb"])
        # adopt implementation state without re-checking (it was checked when this
        # prefix was the last transition of its own history)
        dump = S.dump_bucket(ds, "A")
        m.ever |= set(m.live)
        m.live = {t[0]: t[1:] for t in dump}
        m.ever |= set(m.live)
    return ds, m


def _nontrivial(m, op):
    vals = list(m.live.values())
    starts = [v[0] for v in vals]
    ends = [v[0] + v[1] for v in vals]
    tags = []
    if len(set(starts)) < len(starts):
        tags.append("pre_start_tie")
    if len(set(ends)) < len(ends):
        tags.append("pre_end_tie")
    if any(v[1] == 0 for v in vals):
        tags.append("pre_zero_length")
    if op[0] in ("ups", "mix", "rep", "del", "rep_otherid", "ups_twice") and op[1] != len(vals) - 1:
        tags.append("addresses_older_id")
    if op[0] in ("repl", "repl_otherid") and vals:
        mx = max(starts)
        if starts.count(mx) > 1:
            tags.append("repl_newest_start_tie")
        me = max(ends)
        if ends.count(me) > 1:
            tags.append("repl_max_end_tie")
    return tags


def expand_with(backend, wdir, hist, E, K, prefix=()):
    u = Unit()
    emb = _G["emb"]
    full = tuple(prefix) + tuple(hist)
    ds, m = replay(backend, wdir, full)
    self_canon = _canon(ds)
    passive0 = S.dump_bucket(ds, "passive")
    ops = BL.enabled_ops(m, E, K, foreign=backend != "memory")
    succ = []
    for op in ops:
        ds, mm = replay(backend, wdir, full)
        pre = mm.copy()
        x = BL.perform(ds, "A", mm, op, emb)
        probs = BL.compare(ds, "A", mm, x, op[0])
        u.transitions += 1
        u.evaluations += 1
        u.traces += 1
        tags = _nontrivial(pre, op)
        u.hist["op_" + op[0]] += 1
        for t in tags:
            u.hist[t] += 1
        if {"pre_start_tie", "pre_end_tie", "addresses_older_id", "repl_newest_start_tie", "repl_max_end_tie"} & set(tags):
            u.nontrivial += 1
        if op[0] in ("repl", "repl_otherid") and x["target"] is not None and x["target"] != max(pre.live):
            u.hist["repl_target_not_last_inserted"] += 1
        if not probs and S.dump_bucket(ds, "passive") != passive0:
            probs = [("other-bucket-changed", f"passive bucket now {S.dump_bucket(ds, 'passive')}")]
        if probs:
            for sym, det in probs[:2]:
                u.violation(
                    f"{backend}:{op[0]}:{sym}",
                    f"{backend} after history {list(hist)} op {op}: {det}",
                    {"backend": backend, "history": [list(o) for o in full], "op": list(op), "unit_us": emb.unit_us},
                    size=len(full) * 100 + len(json.dumps(op)),
                )
        else:
            succ.append((_canon(ds), tuple(hist) + (op,)))
    if len(full) <= 1 and not prefix:
        u.sample({"backend": backend, "history": [list(o) for o in full], "ops_applied_from_here": len(ops)})
    r = u.result()
    r.update({"self": self_canon, "succ": succ, "path": tuple(hist)})
    return r


def _expand(hist):
    c = _G["cfg"]
    return expand_with(c["backend"], _G["ctx"].wdir(), hist, c["E"], c["K"])


def run(ctx):
    total = Agg()
    _G["ctx"] = ctx
    _G["lab"] = _labels(ctx)
    _G["emb"] = Emb(ctx.base, 1_000_000)
    cfgs = BOUNDS[ctx.tier]["configs"]
    per = {}
    for cfg in cfgs:
        E = _emb_ev({"E4": E4, "E6": E6, "E18": E18}[cfg["alphabet"]])
        _G["emb"] = Emb(ctx.base, cfg.get("unit_us", 1_000_000))  # 1 ms: several events inside one calendar second
        for backend in S.BACKENDS:
            _G["cfg"] = {"backend": backend, "E": E, "K": cfg["K"], "shaped": cfg.get("shaped", False)}
            agg, seen = _bfs(ctx, f"{backend}/{cfg['alphabet']}/K{cfg['K']}")
            per[f"{backend}/{cfg['alphabet']}/K{cfg['K']}/{cfg.get('unit_us', 1000000)}us"] = {"states": agg.states, "transitions": agg.transitions, "max_depth": agg.max_depth, "violating_transitions": sum(v.get("count", 1) for v in agg.violations)}
            _merge(total, agg)
    total.extra["per_backend"] = per
    for need in ("pre_end_tie", "pre_start_tie", "pre_zero_length", "addresses_older_id", "repl_max_end_tie", "repl_newest_start_tie", "op_repl", "op_del", "op_ups"):
        ctx.selfcheck(total.hist.get(need, 0) > 0, f"vacuous exploration: counter {need} is zero")
    return total


def _bfs(ctx, label):
    return engine.bfs(ctx, _expand, [()], label=label, max_states=100000, cap_s=7200 if _G["ctx"].thorough else 1800)


def _merge(total, agg):
    total.evaluations += agg.evaluations
    total.states += agg.states
    total.transitions += agg.transitions
    total.traces += agg.traces
    total.nontrivial += agg.nontrivial
    total.hist.update(agg.hist)
    total.violations.extend(agg.violations)
    total.max_depth = max(total.max_depth, agg.max_depth)
    for s in agg.samples:
        if len(total.samples) < 12:
            total.samples.append(s)
    if not agg.exhaustive:
        total.exhaustive = False
    total.caps.extend(agg.caps)


def run_case(ctx, case):
    """replay one transition (history + op) on a fresh real store"""
    _G["ctx"] = ctx
    _G["lab"] = _labels(ctx)
    _G["emb"] = Emb(ctx.base, case.get("unit_us", 1_000_000))
    backend = case["backend"]
    hist = BL.tup(case["history"])
    op = BL.tup(case["op"])
    _G["cfg"] = {}
    ds, m = replay(backend, ctx.wdir(), hist)
    before = S.dump_bucket(ds, "A")
    passive0 = S.dump_bucket(ds, "passive")
    x = BL.perform(ds, "A", m, op, _G["emb"])
    probs = BL.compare(ds, "A", m, x, op[0])
    after = S.dump_bucket(ds, "A")
    if not probs and S.dump_bucket(ds, "passive") != passive0:
        probs = [("other-bucket-changed", str(S.dump_bucket(ds, "passive")))]
    return {"before": before, "op": op, "expected_records": {str(k): v for k, v in x["exp"].items()}, "expected_new": x["fresh"], "observed": after, "violations": [list(p) for p in probs]}
