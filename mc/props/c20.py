"""C20 -- effective configuration is the defaults overlaid by the user's file.

Explorer L over document pairs: default documents assign each path of a small
path universe (nesting up to 3 tables) one of {absent, int, string, array};
user documents assign each path one of {absent, same, other int, float equal in
value, bool, string, array} plus structural conflicts (scalar where the default
has a table, table where it has a scalar, user-only keys/tables); each document
is rendered in three TOML styles (table headers with comments and blank lines,
dotted keys, inline tables).  Oracle: recursive dict overlay with type-strict
comparison; user file bytes before/after; first-run file then reload == defaults."""
import itertools
import json
import os

from aw_core import dirs
from aw_core.config import load_config_toml
from mc.core import Agg, Unit
from mc.lattice import chunked

PATHS_Q = (("a",), ("t", "a"), ("t", "b"), ("t", "u", "a"))
PATHS_T = (("a",), ("b",), ("t", "a"), ("t", "b"), ("t", "u", "a"), ("t", "u", "v", "a"))
DEF_VALS = (None, 1, "s", [1, 2])
USER_OPTS = ("absent", "same", 2, 1.0, True, "other", [3], "same-array-other-element-type")
DEF_VALS_Q = (None, 1, [1, 2])
USER_OPTS_Q = ("absent", "same", 2, 1.0, "same-array-other-element-type")
STRUCT = ("none", "t_scalar", "a_table", "u_scalar", "user_only", "empty_tables")
BOUNDS = {
    "quick": {"paths": [".".join(p) for p in PATHS_Q], "default_values": "absent/1/[1,2] per path (81 docs)", "user_options": "absent/same/2/1.0/[1.0, 2.0] per path x 5 structural variants", "styles": "style of default and user doc rotate through the 9 combinations by case index", "first_run": "every default doc in every style"},
    "thorough": {"paths": [".".join(p) for p in PATHS_Q], "default_values": "absent/1/'s'/[1,2] per path (256 docs)", "user_options": "absent/same/2/1.0/true/'other'/[3] per path x 5 structural variants", "styles": "3 style combinations per pair (rotating)", "first_run": "every default doc over 6 paths (4096) in every style"},
}
RULE = (
    "full product of default documents x user documents (per-path options x structural variants); each pair is written to a real config file and loaded with load_config_toml; "
    "non-trivial = pairs where the user sets at least one key the default also sets (override), with a different type, or a structural conflict, or a user-only key below the top level"
)
ASSUMPTIONS = [
    "arrays of tables ([[x]]) are outside the stated grammar and not generated; multi-line strings/arrays, quoted and dotted keys, CRLF, dates and special floats only occur in the 22 hand-written user documents (compared through JSON with default=str)",
    "values are compared type-strictly through JSON (1, 1.0 and true are different values)",
    "tomlkit is the trusted TOML reader for the user's and the default document when computing the expected overlay (documents are generated from dicts and re-read by tomlkit to confirm the rendering, else the case is a harness error)",
]
_G = {}


def APP():
    # the application name carries dots (as in "aw-sync-0.12"): the file is <dir>/<name>/<name>.toml with the
    # name taken literally (seeded: Path.with_suffix replaced everything after the last dot)
    return f"verif-c20-{os.getpid()}-0.12"


FIXED_MTIME_NS = 1_600_000_000_000_000_000  # every user file gets the same mtime (cp -p, restored backups, coarse clocks):
# what is loaded is what the file SAYS (seeded: parsed user file cached on (path, mtime, size))


def set_path(d, path, v):
    for k in path[:-1]:
        d = d.setdefault(k, {})
        if not isinstance(d, dict):
            return False
    if isinstance(d.get(path[-1]), dict):
        return False
    d[path[-1]] = v
    return True


def tv(v):
    if isinstance(v, bool):
        return "true" if v else "false"
    if isinstance(v, (int, float)):
        return repr(v)
    if isinstance(v, str):
        return json.dumps(v)
    if isinstance(v, list):
        return "[" + ", ".join(tv(x) for x in v) + "]"
    if isinstance(v, dict):
        return "{ " + ", ".join(f"{k} = {tv(x)}" for k, x in v.items()) + " }" if v else "{}"
    raise TypeError(v)


def render(d, style):
    lines = []
    if style == 2:  # inline tables
        for k, v in d.items():
            lines.append(f"{k} = {tv(v)}")
        return "\n".join(lines) + ("\n" if lines else "")
    if style == 1:  # dotted keys

        def rec(prefix, dd):
            for k, v in dd.items():
                if isinstance(v, dict) and v:
                    rec(prefix + [k], v)
                elif isinstance(v, dict):
                    lines.append(".".join(prefix + [k]) + " = {}")
                else:
                    lines.append(".".join(prefix + [k]) + f" = {tv(v)}")

        rec([], d)
        return "\n".join(lines) + ("\n" if lines else "")
    # style 0: table headers, with comments and blank lines
    lines.append("# generated config")
    for k, v in d.items():
        if not isinstance(v, dict):
            lines.append(f"{k} = {tv(v)}  # top-level {k}")
    lines.append("")

    def sect(prefix, dd):
        lines.append("[" + ".".join(prefix) + "]")
        lines.append("# section " + ".".join(prefix))
        for k, v in dd.items():
            if not isinstance(v, dict):
                lines.append(f"{k} = {tv(v)}")
        lines.append("")
        for k, v in dd.items():
            if isinstance(v, dict):
                sect(prefix + [k], v)

    for k, v in d.items():
        if isinstance(v, dict):
            sect([k], v)
    return "\n".join(lines) + "\n"


def overlay(d, u):
    out = {k: (overlay(v, {}) if isinstance(v, dict) else v) for k, v in d.items()}
    for k, v in u.items():
        if k in out and isinstance(out[k], dict) and isinstance(v, dict):
            out[k] = overlay(out[k], v)
        else:
            out[k] = overlay(v, {}) if isinstance(v, dict) else v
    return out


def js(x):
    return json.dumps(x, sort_keys=True, default=str)


def default_docs(paths, dvals=DEF_VALS):
    for vals in itertools.product(dvals, repeat=len(paths)):
        d = {}
        for p, v in zip(paths, vals):
            if v is not None:
                set_path(d, p, v)
        yield d


def get_path(d, path):
    for k in path:
        if not isinstance(d, dict) or k not in d:
            return None
        d = d[k]
    return d


def user_docs(paths, dflt, opts):
    for choice in itertools.product(opts, repeat=len(paths)):
        base = {}
        for p, c in zip(paths, choice):
            if c == "absent":
                continue
            if c == "same":
                dv = get_path(dflt, p)
                set_path(base, p, dv if dv is not None and not isinstance(dv, dict) else 1)
            elif c == "same-array-other-element-type":
                # compares equal to the default array [1, 2] in Python, but is a different TOML value
                set_path(base, p, [1.0, 2.0])
            else:
                set_path(base, p, c)
        for st in STRUCT:
            u = json.loads(json.dumps(base))
            if st == "t_scalar":
                u["t"] = 5
            elif st == "a_table":
                u["a"] = {"x": 1}
            elif st == "u_scalar":
                if isinstance(u.get("t"), dict) or "t" not in u:
                    u.setdefault("t", {})["u"] = 7
                else:
                    continue
            elif st == "empty_tables":
                # tables that set nothing are values too: a user-only empty table is kept, an empty table
                # over a default scalar replaces it (seeded: _merge skipped empty user tables)
                u["a"] = {}
                u["e"] = {}
                if isinstance(u.get("t"), dict) or "t" not in u:
                    u.setdefault("t", {})["w"] = {}
            elif st == "user_only":
                u["only"] = "mine"
                if isinstance(u.get("t"), dict) or "t" not in u:
                    u.setdefault("t", {}).setdefault("w", {})["deep"] = [True]
            yield u, (choice, st)


def nontrivial(dflt, user, meta):
    choice, st = meta
    if st != "none":
        return True
    for p in _G["paths"]:
        dv, uv = get_path(dflt, p), get_path(user, p)
        if dv is not None and uv is not None:
            return True
    return False


def run_pair(app, dflt, user, sd, su, utxt=None):
    """-> list of problems"""
    cfgdir = dirs.get_config_dir(app)
    path = os.path.join(cfgdir, f"{app}.toml")
    dtxt = render(dflt, sd)
    if utxt is None:
        utxt = render(user, su)
    with open(path, "w", newline="") as f:
        f.write(utxt)
    os.utime(path, ns=(FIXED_MTIME_NS, FIXED_MTIME_NS))
    before = open(path, "rb").read()
    try:
        res = load_config_toml(app, dtxt)
        got = res.unwrap() if hasattr(res, "unwrap") else dict(res)
    except Exception as e:
        return [("load-raised:" + type(e).__name__ + ":" + "-".join(str(e).lower().split()[:6]), f"defaults {dtxt!r} user {utxt!r}: {type(e).__name__}: {e}")]
    probs = []
    if open(path, "rb").read() != before:
        probs.append(("user-file-altered", "bytes of the user's file changed"))
    want = overlay(dflt, user)
    if js(got) != js(want):
        probs.append((classify(dflt, user, got, want), f"defaults {js(dflt)} user {js(user)} -> effective {js(got)} expected {js(want)}"))
    return probs


def classify(dflt, user, got, want):
    def walk(g, w, path):
        for k in set(g if isinstance(g, dict) else {}) | set(w if isinstance(w, dict) else {}):
            gv = g.get(k, "<missing>") if isinstance(g, dict) else "<missing>"
            wv = w.get(k, "<missing>") if isinstance(w, dict) else "<missing>"
            if js(gv) == js(wv):
                continue
            if isinstance(gv, dict) and isinstance(wv, dict):
                r = walk(gv, wv, path + [k])
                if r:
                    return r
                continue
            uv = get_path(user, path + [k])
            dv = get_path(dflt, path + [k])
            if uv is not None and js(wv) == js(uv):
                if dv is not None and not isinstance(dv, dict) and not isinstance(uv, dict) and dv == uv:
                    return "user-value-of-other-type-ignored"
                return "user-value-not-used"
            if gv == "<missing>":
                return "default-or-user-key-lost"
            return "default-value-wrong"
        return None

    return walk(got, want, []) or "effective-config-wrong"


def first_run(app, dflt, style):
    cfgdir = dirs.get_config_dir(app)
    path = os.path.join(cfgdir, f"{app}.toml")
    # the whole configuration directory of the application is gone (a wiped profile), not just the file:
    # the loader has to create it again (seeded: the file path was resolved once per process and cached)
    import shutil

    shutil.rmtree(cfgdir, ignore_errors=True)
    dtxt = render(dflt, style)
    probs = []
    try:
        r1 = load_config_toml(app, dtxt)
        g1 = r1.unwrap()
        if not os.path.isfile(path):
            return [("first-run-no-file-written", "")]
        b = open(path, "rb").read()
        g2 = load_config_toml(app, dtxt).unwrap()
        g3 = load_config_toml(app, dtxt).unwrap()
        if open(path, "rb").read() != b:
            probs.append(("first-run-file-altered-by-later-load", ""))
    except Exception as e:
        return [("first-run-raised", f"{type(e).__name__}: {e}; file: {open(path).read() if os.path.exists(path) else None!r}")]
    want = overlay(dflt, {})
    for n, g in (("first", g1), ("second", g2), ("third", g3)):
        if js(g) != js(want):
            probs.append((f"first-run-{n}-load-differs-from-defaults", f"defaults {js(want)} got {js(g)}; written file {open(path).read()!r}"))
            break
    return probs


# hand-written USER documents that exercise TOML syntax a line-oriented shortcut would get wrong; the
# expected user dict is what tomlkit (the trusted reader) makes of the text
TRICKY_USER = (
    'note = """\n# Weekly summary\n## generated\nbody"""\n',
    "note = '''\n# literal\n[t]\na = 9\n'''\n",
    'a = 2 # a = 3\n# a = 4\n',
    '# [t]\n# a = 5\n[t]\n# b = 6\na = 7 # trailing [t.u]\n',
    'a = "x # not a comment"\n[t]\nb = "# neither"\n',
    '"a" = 2\n[\'t\']\n"a" = 3\n',
    '"a.b" = 1\n[t]\n"u.a" = 2\n',
    't . a = 2\nt.u . a = 3\n',
    'a = 2\r\n[t]\r\na = 3\r\n\r\n[t.u]\r\na = 4\r\n',
    '[t.u]\na = 2\n[t]\na = 3\n',
    '[t]\n[t.u]\n[t.u.v]\na = 1\n',
    't = { a = 2, u = { a = 3 } } # inline\n',
    'a = [\n  3, # three\n  4,\n]\n',
    'a = [[1, 2], ["x"]]\n[t]\nb = [{ k = 1 }, { k = 2 }]\n',
    'a = 1979-05-27T07:32:00Z\n[t]\na = 0x10\nb = 1_000\n',
    'a = -0.0\n[t]\na = inf\n',
    'a = ""\n[t]\na = ""\nb = []\n',
    '\n\n# only comments\n   \n',
    'a=2\n[ t ]\na=3\n[ t . u ]\na=4\n',
    '[t]\na = 2\n\n[x]\ny = 1\n\n[t.w]\nz = 1\n',
    '"" = 1\n[t]\n"é ü" = 2\n',
    'a = """one\\\n   line"""\n',
)
TRICKY_DEFAULTS = ({}, {"a": 1}, {"a": 1, "t": {"a": 1, "b": [1, 2], "u": {"a": 1}}}, {"t": {"u": {"v": {"a": 1}}}, "note": "n"})


def _unit_tricky(_):
    import tomlkit

    app = APP()
    u = Unit()
    for ui, utxt in enumerate(TRICKY_USER):
        try:
            user = json.loads(json.dumps(tomlkit.parse(utxt).unwrap(), default=str))
        except Exception as e:  # the harness's own documents must be valid TOML
            raise RuntimeError(f"tricky user document {ui} is not valid TOML: {e}")
        for dflt in TRICKY_DEFAULTS:
            for sd in (0, 1, 2):
                u.states += 1
                u.nontrivial += 1
                u.evaluations += 1
                u.transitions += 1
                for sym, det in run_pair(app, dflt, user, sd, 0, utxt=utxt)[:1]:
                    case = {"kind": "tricky", "default": dflt, "user_index": ui, "style": sd}
                    u.violation(f"config:{sym}", f"user file {utxt!r}: {det}", case, size=len(js(dflt)) + len(utxt))
    u.sample({"kind": "hand-written user documents", "n": len(TRICKY_USER), "example": TRICKY_USER[0]}, cap=1)
    return u.result()


def _dispatch(args):
    return _unit_tricky(args) if args[0] == "tricky" else _unit(args)


def _unit(args):
    kind, dlist, opts, styles = args
    ctx = _G["ctx"]
    app = APP()
    u = Unit()
    n = 0
    for di, dflt in dlist:
        if kind == "first":
            for st in (0, 1, 2):
                u.evaluations += 3
                u.transitions += 3
                u.states += 1
                u.nontrivial += 1 if any(isinstance(v, dict) for v in dflt.values()) else 0
                for sym, det in first_run(app, dflt, st)[:1]:
                    case = {"kind": "first", "default": dflt, "style": st}
                    u.violation(f"config:{sym}", det, case, size=len(js(dflt)))
            continue
        for user, meta in user_docs(_G["paths"], dflt, opts):
            n += 1
            u.states += 1
            if nontrivial(dflt, user, meta):
                u.nontrivial += 1
            for sd, su in (styles if styles else [((di + n) % 3, (n // 3) % 3)]):
                u.evaluations += 1
                u.transitions += 1
                for sym, det in run_pair(app, dflt, user, sd, su)[:1]:
                    case = {"kind": "pair", "default": dflt, "user": user, "styles": [sd, su]}
                    u.violation(f"config:{sym}", det, case, size=len(js(dflt)) + len(js(user)))
    if dlist and kind == "pair":
        d = dlist[-1][1]
        u.sample({"default_toml": render(d, 0), "user_toml_example": render(next(user_docs(_G["paths"], d, opts))[0], 1)}, cap=1)
    return u.result()


def selftest_render(ctx):
    """rendering sanity: every style of a few documents must parse back (with tomlkit) to the dict"""
    import tomlkit

    for d in list(default_docs(PATHS_Q))[::17] + [{"t": {"u": {"a": 1}, "a": "s"}, "a": [1, 2], "only": "mine"}]:
        for st in (0, 1, 2):
            back = tomlkit.parse(render(d, st)).unwrap()
            if js(back) != js(d):
                ctx.selfcheck(False, f"renderer style {st} does not round-trip {d}: {back}")
                return


def run(ctx):
    _G["ctx"] = ctx
    selftest_render(ctx)
    units = []
    if not ctx.thorough:
        _G["paths"] = PATHS_Q
        dl = list(enumerate(default_docs(PATHS_Q, DEF_VALS_Q)))
        for ch in chunked(dl, ctx.workers * 4):
            units.append(("pair", ch, USER_OPTS_Q, None))
        for ch in chunked(list(enumerate(default_docs(PATHS_Q))), ctx.workers):
            units.append(("first", ch, None, None))
        space = {"default_docs": len(dl), "user_docs_per_default": "5^4 x 5 structural variants (minus impossible)", "first_run_default_docs": 256}
    else:
        _G["paths"] = PATHS_Q
        dl = list(enumerate(default_docs(PATHS_Q)))
        for ch in chunked(dl, ctx.workers * 8):
            units.append(("pair", ch, USER_OPTS, None))
        dl6 = list(enumerate(default_docs(PATHS_T)))
        for ch in chunked(dl6, ctx.workers):
            units.append(("first", ch, None, None))
        space = {"default_docs_4paths": len(dl), "default_docs_6paths_first_run": len(dl6)}
    units.append(("tricky", None, None, None))
    agg = Agg()
    for r in ctx.pmap(_dispatch, units):
        agg.add(r)
    agg.extra["space"] = space
    ctx.selfcheck(agg.nontrivial > 0, "no override case")
    return agg


def run_case(ctx, case):
    _G["ctx"] = ctx
    _G["paths"] = PATHS_Q
    app = APP()
    if case["kind"] == "first":
        probs = first_run(app, case["default"], case["style"])
        return {"default_toml": render(case["default"], case["style"]), "violations": [list(p) for p in probs]}
    if case["kind"] == "tricky":
        import tomlkit

        utxt = TRICKY_USER[case["user_index"]]
        user = json.loads(json.dumps(tomlkit.parse(utxt).unwrap(), default=str))
        probs = run_pair(app, case["default"], user, case["style"], 0, utxt=utxt)
        return {"default_toml": render(case["default"], case["style"]), "user_toml": utxt, "violations": [list(p) for p in probs]}
    # replay: in the run this pair followed other user files at the same path with the same mtime; give it
    # one predecessor of the same length (comment characters only) so that state carried from an earlier
    # load has something to carry
    utxt = render(case["user"], case["styles"][1])
    if len(utxt) > 1:
        run_pair(app, case["default"], {}, case["styles"][0], 0, utxt="#" * (len(utxt) - 1) + "\n")
    probs = run_pair(app, case["default"], case["user"], case["styles"][0], case["styles"][1])
    return {"default_toml": render(case["default"], case["styles"][0]), "user_toml": render(case["user"], case["styles"][1]), "violations": [list(p) for p in probs]}
