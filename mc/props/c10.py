"""C10 -- flood closes exactly the short gaps and never loses or overlaps time.

Explorer L: every non-overlapping event sequence with distinct starts of <= n
events on a lattice x every label assignment x every pulsetime x every input
order; oracle on unit cells."""
import itertools
import json
from copy import deepcopy

from aw_transform import flood
from mc.core import Agg, Unit
from mc.drivers import stores as S
from mc.lattice import Emb, chunked

BOUNDS = {
    "quick": {"n<=3": "lattice 0..9, labels {A,B}, pulsetimes {0,1,2} units, all input orders, unit 1 s", "n=4": "lattice 0..6, pulsetimes {0,1,2}, sorted + reversed input order", "ms": "n<=3 on 0..6 at unit 1 ms with pulsetimes {0,0.5,1,2}"},
    "thorough": {"n<=4": "lattice 0..8, all input orders for n<=4", "n=5": "lattice 0..7 sorted order", "units": "1 s and 1 ms, pulsetimes {0,0.5,1,1.5,2,3}"},
}
RULE = (
    "all sequences of <=n events (start, duration>=0) with distinct starts and no negative gap (s[i+1] >= end[i]), every assignment of 2 labels, every listed pulsetime, every permutation of the input order (where stated); "
    "non-trivial = sequences with >=3 events, or a zero-length event, or a gap exactly equal to the pulsetime"
)
ASSUMPTIONS = [
    "non-overlapping is read as: sorted by start, every consecutive gap >= 0 (zero-length events may touch but not lie strictly inside another event)",
    "the default pulsetime of flood is not used; pulsetimes are passed explicitly",
]
_G = {}


def sequences(N, n):
    """all tuples of (s,d) of length exactly n, strictly increasing starts, s[i+1] >= s[i]+d[i], end <= N"""
    out = []

    def rec(prefix, min_s):
        if len(prefix) == n:
            out.append(tuple(prefix))
            return
        for s in range(min_s, N + 1):
            if prefix and s == prefix[-1][0]:
                continue
            for d in range(0, N - s + 1):
                prefix.append((s, d))
                rec(prefix, s + d)
                prefix.pop()

    rec([], 0)
    # distinct starts: a zero-length event at s followed by an event starting at s is excluded above
    return [q for q in out if len({x[0] for x in q}) == len(q)]


def oracle(seq, labels, p, got, in_after, in_before):
    """seq: sorted ((s,d)...) lattice; labels tuple; p pulsetime in units (may be fractional);
    got: list of (s, e, label) lattice coordinates (may be non-integer -> violation)"""
    probs = []
    if in_after != in_before:
        probs.append(("input-modified", f"input after call {in_after} != before {in_before}"))
    for g in got:
        if not (float(g[0]).is_integer() and float(g[1]).is_integer()):
            probs.append(("off-lattice-endpoint", f"{g}"))
            return probs
        if g[1] - g[0] <= 0:
            probs.append(("non-positive-length-output", f"{g} in {got}"))
    cells = {}
    for g in got:
        for c in range(int(g[0]), int(g[1])):
            if c in cells:
                probs.append(("outputs-overlap", f"cell {c} covered twice in {got}"))
            cells[c] = g[2]
    incells = {}
    for (s, d), l in zip(seq, labels):
        for c in range(s, s + d):
            incells[c] = l
    for c, l in incells.items():
        if c not in cells:
            probs.append(("input-time-lost", f"cell {c} covered by input, not by output {got}"))
        elif cells[c] != l:
            probs.append(("label-lost-time", f"cell {c} belonged to {l!r}, now {cells[c]!r}; output {got}"))
    short, long_ = set(), set()
    for (s0, d0), (s1, d1) in zip(seq, seq[1:]):
        gap = s1 - (s0 + d0)
        rng = set(range(s0 + d0, s1))
        if gap <= p:
            short |= rng
        else:
            long_ |= rng
    for c in short:
        if c not in cells:
            probs.append(("short-gap-left-open", f"cell {c} lies in a gap <= pulsetime {p} but is not covered; output {got}"))
    for c in cells:
        if c not in incells and c not in short:
            probs.append(("covered-outside-short-gaps", f"cell {c} newly covered but not inside a gap <= pulsetime {p}; output {got}"))
    return probs


def run_one(emb, seq, labels, p, order):
    evs = [emb.ev(s, d, l) for (s, d), l in zip(seq, labels)]
    arg = [evs[i] for i in order]
    before = [S.ev_tuple(e) for e in arg]
    try:
        out = flood(arg, pulsetime=p * emb.unit_us / 1_000_000)
        again = flood(arg, pulsetime=p * emb.unit_us / 1_000_000)
        if [S.ev_tuple(e) for e in out] != [S.ev_tuple(e) for e in again]:
            return [("flood-second-call-differs", "same list, different result the second time")], None
    except Exception as e:
        return [("flood-raised", f"{type(e).__name__}: {e}")], None
    after = [S.ev_tuple(e) for e in arg]
    got = []
    for e in out:
        a, b = emb.iv(e)
        got.append((a, b, e.data.get("label")))
    return oracle(seq, labels, p, got, after, before), got


def _unit(args):
    unit_us, N, n, seqs, P, orders = args
    ctx = _G["ctx"]
    emb = Emb(ctx.base, unit_us)
    L = ctx.labels[:2]
    u = Unit()
    perms = list(itertools.permutations(range(n))) if orders == "all" else [tuple(range(n)), tuple(reversed(range(n)))] if orders == "2" else [tuple(range(n))]
    perms = sorted(set(perms))
    for seq in seqs:
        for labels in itertools.product(L, repeat=n):
            for p in P:
                u.states += 1
                nt = n >= 3 or any(d == 0 for _, d in seq) or any(b[0] - (a[0] + a[1]) == p for a, b in zip(seq, seq[1:]))
                if nt:
                    u.nontrivial += 1
                for order in perms:
                    probs, got = run_one(emb, seq, labels, p, order)
                    u.evaluations += 1
                    u.transitions += 1
                    for sym, det in probs[:1]:
                        case = {"unit_us": unit_us, "seq": [list(x) for x in seq], "labels": list(labels), "pulsetime_units": p, "order": list(order)}
                        u.violation(f"flood:{sym}", f"flood({[(s, d, l) for (s, d), l in zip(seq, labels)]} in order {order}, pulsetime {p}): {det}", case, size=n * 1000 + len(json.dumps(case)))
    if seqs:
        u.sample({"unit_us": unit_us, "seq": [list(x) for x in seqs[len(seqs) // 2]], "labels": "all 2^n", "pulsetimes": list(P), "orders": orders}, cap=1)
    return u.result()


def _iv_us(e):
    a = S.us_of(e.timestamp)
    return a, a + S.dus_of(e.duration)


def _unit_frac(ks):
    """fractional pulsetimes: for every k, pulsetime k/1000 s; a gap of EXACTLY the pulsetime is closed, a gap
    1 ms longer stays open (seeded: threshold built as timedelta(milliseconds=int(pulsetime * 1000)),
    which loses a millisecond for values such as 1.001)"""
    from datetime import timedelta

    ctx = _G["ctx"]
    emb = Emb(ctx.base, 1_000)
    La, Lb = ctx.labels[:2]
    u = Unit()
    for k in ks:
        p = k / 1000
        for same in (True, False):
            for extra in (0, 1):
                a = emb.ev(0, 10, La)
                b = emb.ev(10 + k + extra, 10, La if same else Lb)
                try:
                    out = flood([a, b], pulsetime=p)
                except Exception as ex:
                    u.violation("flood:raised", f"{type(ex).__name__}: {ex}", {"kind": "frac", "k": k})
                    continue
                u.states += 1
                u.evaluations += 1
                u.transitions += 1
                u.nontrivial += 1
                ivs = sorted(_iv_us(e) for e in out)
                lo, hi = _iv_us(emb.ev(0, 10, La))[0], _iv_us(emb.ev(10 + k + extra, 10, La))[1]
                covered = sum(y - x for x, y in ivs)
                closed = len(ivs) >= 1 and ivs[0][0] == lo and ivs[-1][1] == hi and covered == hi - lo
                untouched = ivs == sorted([_iv_us(emb.ev(0, 10, La)), _iv_us(emb.ev(10 + k + extra, 10, La))])
                case = {"kind": "frac", "k": k, "same": same, "extra": extra}
                if extra == 0 and not closed:
                    u.violation("flood:fractional-pulsetime:gap-equal-to-pulsetime-left-open", f"flood([0..10 ms, {10 + k}..{20 + k} ms] {'same' if same else 'different'} data, pulsetime {p!r} s): gap of exactly {k} ms not closed: {ivs}", case, size=k)
                if extra == 1 and not untouched:
                    u.violation("flood:fractional-pulsetime:longer-gap-closed", f"flood(gap {k + 1} ms, pulsetime {p!r} s) changed the events: {ivs}", case, size=k)
    u.sample({"kind": "fractional pulsetimes", "k_ms": [ks[0], ks[-1]], "gaps": "k and k+1 ms", "data": "same and different"}, cap=1)
    return u.result()


def _unit_subms(seqs):
    """events that END inside a millisecond (duration + 500 us; timestamps have ms resolution, so an exact
    seam is not representable): nothing that was covered may be lost, every label keeps what it covered,
    outputs may overlap only by the sub-millisecond part of such an end (< 1 ms), and newly covered
    time lies inside gaps of at most the pulsetime (seeded: the backward extension computed its new
    duration from the unfloored end and lost the fraction at the far end)"""
    from datetime import timedelta

    ctx = _G["ctx"]
    emb = Emb(ctx.base, 1_000)
    L = ctx.labels[:2]
    u = Unit()
    for seq in seqs:
        n = len(seq)
        for labels in itertools.product(L, repeat=n):
            for frac in itertools.product((0, 500), repeat=n):
                if not any(frac):
                    continue
                for p in (0, 1, 2):
                    evs = []
                    for (s0, d0), l, f in zip(seq, labels, frac):
                        e = emb.ev(s0, d0, l)
                        if f and d0 > 0:
                            e.duration = e.duration + timedelta(microseconds=f)
                        evs.append(e)
                    ins = [_iv_us(e) + (e.data["label"],) for e in evs]
                    if any(ins[i][1] > ins[i + 1][0] for i in range(n - 1)):
                        continue  # the extension made the inputs overlap: outside the quantifier
                    try:
                        out = flood(evs, pulsetime=p / 1000)
                    except Exception as ex:
                        u.violation("flood:raised", f"{type(ex).__name__}: {ex}", {"kind": "subms", "seq": [list(x) for x in seq]})
                        continue
                    u.states += 1
                    u.evaluations += 1
                    u.transitions += 1
                    u.nontrivial += 1
                    outs = sorted(_iv_us(e) + (e.data["label"],) for e in out)
                    case = {"kind": "subms", "seq": [list(x) for x in seq], "labels": list(labels), "frac": list(frac), "pulsetime_ms": p}
                    bad = None

                    def covered_by(x0, x1, ivs):
                        pos = x0
                        for a, b in sorted(ivs):
                            if b <= pos:
                                continue
                            if a > pos:
                                return False
                            pos = b
                            if pos >= x1:
                                return True
                        return pos >= x1

                    for a, b, l in ins:
                        if b > a and not covered_by(a, b, [(x, y) for x, y, ll in outs if ll == l]):
                            bad = ("input-time-lost", f"[{a},{b}) us labelled {l!r} is no longer covered under that label")
                            break
                    if not bad:
                        for (a0, b0, _), (a1, b1, _) in zip(outs, outs[1:]):
                            if b0 - a1 >= 1000:
                                bad = ("outputs-overlap", f"outputs [{a0},{b0}) and [{a1},{b1}) overlap by {b0 - a1} us (>= 1 ms)")
                                break
                    if not bad:
                        for a, b, l in outs:
                            if b <= a:
                                bad = ("non-positive-length-output", f"[{a},{b})")
                    if bad:
                        u.violation(f"flood:sub-ms-end:{bad[0]}", f"flood({ins}, pulsetime {p} ms): {bad[1]}; output {outs}", case, size=n * 100 + p)
    if seqs:
        u.sample({"kind": "sub-millisecond ends", "seq": [list(x) for x in seqs[0]], "fractions_us": [0, 500]}, cap=1)
    return u.result()


def _dispatch(x):
    if x[0] == "frac":
        return _unit_frac(x[1])
    if x[0] == "subms":
        return _unit_subms(x[1])
    return _unit(x)


def run(ctx):
    _G["ctx"] = ctx
    plan = []
    if not ctx.thorough:
        for n in (0, 1, 2, 3):
            plan.append((1_000_000, 9, n, (0, 1, 2), "all"))
        plan.append((1_000_000, 6, 4, (0, 1, 2), "2"))
        for n in (1, 2, 3):
            plan.append((1_000, 6, n, (0, 0.5, 1, 2), "all"))
    else:
        for unit_us in (1_000_000, 1_000):
            for n in (0, 1, 2, 3, 4):
                plan.append((unit_us, 8, n, (0, 0.5, 1, 1.5, 2, 3), "all"))
            plan.append((unit_us, 7, 5, (0, 1, 2), "1"))
    units = []
    space = []
    for unit_us, N, n, P, orders in plan:
        seqs = sequences(N, n)
        space.append({"unit_us": unit_us, "N": N, "n": n, "sequences": len(seqs), "pulsetimes": list(P), "orders": orders})
        for ch in chunked(seqs, ctx.workers * 4):
            units.append((unit_us, N, n, ch, P, orders))
    ks = list(range(1, 10000 if ctx.thorough else 3000))
    for ch in chunked(ks, ctx.workers):
        units.append(("frac", ch))
    sub = [q for n in (2, 3) for q in sequences(5, n)]
    for ch in chunked(sub, ctx.workers * 2):
        units.append(("subms", ch))
    space.append({"fractional_pulsetimes_ms": [ks[0], ks[-1]], "sub_ms_end_sequences": len(sub)})
    agg = Agg()
    for r in ctx.pmap(_dispatch, units):
        agg.add(r)
    agg.extra["space"] = space
    ctx.selfcheck(agg.nontrivial > 0, "no non-trivial sequence")
    return agg


def run_case(ctx, case):
    _G["ctx"] = ctx
    if case.get("kind") == "frac":
        r = _unit_frac([case["k"]])
        return {"violations": [[v["key"], v["what"]] for v in r["violations"]]}
    if case.get("kind") == "subms":
        r = _unit_subms([tuple(tuple(x) for x in case["seq"])])
        return {"violations": [[v["key"], v["what"]] for v in r["violations"]]}
    emb = Emb(ctx.base, case["unit_us"])
    seq = tuple(tuple(x) for x in case["seq"])
    probs, got = run_one(emb, seq, tuple(case["labels"]), case["pulsetime_units"], tuple(case["order"]))
    return {"input": [(s, d, l) for (s, d), l in zip(seq, case["labels"])], "output": got, "violations": [list(p) for p in probs]}
