"""C07 -- heartbeat ingestion through the store equals heartbeat_reduce of the stream.

Explorer S in stream form: every heartbeat stream (strictly increasing starts,
non-decreasing ends on a lattice, 2 labels) x every pulsetime is fed through the
standard loop into a fresh bucket of each real backend that shares its database
with another bucket populated at every lattice instant; after EVERY heartbeat
the bucket must equal heartbeat_reduce(prefix), earlier events must be untouched
and the other bucket unchanged."""
import copy
import json

from aw_transform import heartbeat_merge, heartbeat_reduce
from mc.core import Agg, Unit
from mc.drivers import stores as S
from datetime import timedelta

from mc.lattice import Emb, chunked

BOUNDS = {
    "quick": {"max_len": 4, "lattice": "0..5", "labels": 2, "pulsetimes_units": [0, 1], "units_us": [1_000_000], "sub_second": "all streams of <=3 heartbeats on 0..4 at 1 ms, 100 ms and 12 h units", "microsecond_durations": "2-5 heartbeats 1 ms apart with durations of k us exactly at end + pulsetime", "noise": "all streams of 2-3 heartbeats on 0..4 x every sequence of {read other bucket, rejected delete / update of a missing bucket, delete of the oldest event of the heartbeat bucket} between the heartbeats"},
    "thorough": {"max_len": 5, "lattice": "0..6", "labels": 2, "pulsetimes_units": [0, 0.5, 1, 2], "units_us": [1_000_000]},
}
RULE = (
    "all heartbeat streams with strictly increasing starts and non-decreasing ends on the lattice (zero and positive durations), labels from {X,Y}, all listed pulsetimes; "
    "each maximal stream is run once and checked after every heartbeat, so every prefix is checked; states = distinct (stream prefix, pulsetime) pairs, transitions = heartbeats ingested; "
    "non-trivial = prefixes in which some heartbeat's end ties with the previous event's end, or is zero-length, or the gap equals the pulsetime"
)
ASSUMPTIONS = [
    "the standard loop is: newest = get(limit=1); merged = heartbeat_merge(newest, hb, pulsetime); replace_last(merged) if merged else insert(hb)",
    "heartbeat_reduce from the working tree is the oracle here (C08 checks it against the hull rule independently)",
]
_G = {}


def streams(N, L, labels=(0, 1)):
    """yield maximal streams (length L, or not extendable) as tuples of (s, d, label)"""

    def rec(prefix, last_s, last_e):
        ext = False
        if len(prefix) < L:
            for s in range(last_s + 1, N + 1):
                for e in range(max(s, last_e), N + 1):
                    ext = True
                    for lab in labels:
                        yield from rec(prefix + ((s, e - s, lab),), s, e)
        if not ext and prefix:
            yield prefix

    yield from rec((), -1, 0)


def count_prefixes(N, L, nlab=2):
    """number of distinct non-empty streams of length <= L"""
    from functools import lru_cache

    @lru_cache(None)
    def ext(last_s, last_e, left):
        if left == 0:
            return 0
        tot = 0
        for s in range(last_s + 1, N + 1):
            for e in range(max(s, last_e), N + 1):
                tot += nlab * (1 + ext(s, e, left - 1))
        return tot

    return ext(-1, 0, L)


def ingest(bucket, hb, pulsetime):
    last = bucket.get(limit=1)
    if last:
        merged = heartbeat_merge(last[0], hb, pulsetime)
        if merged is not None:
            bucket.replace_last(merged)
            return "merged"
    bucket.insert(hb)
    return "inserted"


def _content(e):
    return (S.us_of(e.timestamp), S.dus_of(e.duration), S.canon_data(e.data))


NOISE = ("none", "read-other", "failed-delete-of-missing-bucket", "failed-update-of-missing-bucket", "delete-oldest-event")


def do_noise(ds, name):
    """what other watchers / API users do between two heartbeats; none of it may disturb the stream"""
    try:
        if name == "read-other":
            ds["other"].get(1)
        elif name == "failed-delete-of-missing-bucket":
            ds.delete_bucket("no-such-bucket")
        elif name == "failed-update-of-missing-bucket":
            ds.update_bucket("no-such-bucket", type_id="x")
    except Exception:
        pass


def run_stream(ds, backend, emb, stream, p_units, u, other0, labs, bid="hb", prehistory=False):
    """returns list of problems [(symptom, detail, step)]"""
    if bid in ds.buckets():
        ds.delete_bucket(bid)
    S.mk_bucket(ds, bid)
    b = ds[bid]
    pulsetime = p_units * emb.unit_us / 1_000_000
    prev = {}
    probs = []
    pre = []
    if prehistory:
        # the bucket already has a past, written the way the repository's own tests use replace_last: insert,
        # then replace_last(<fresh event without an id>).  Far older than the stream and with other data, so
        # no heartbeat may touch it (seeded: memory.replace dropped the id of the replaced event, and the
        # first merging heartbeat then rewrote every id-less event)
        b.insert(emb.ev(-400, 1, "past"))
        b.replace_last(emb.ev(-400, 2, "past"))
        pre.append(_content(emb.ev(-400, 2, "past")))
    for n, (s, d, lab) in enumerate(stream):
        hb = emb.ev(s, d, labs[lab])
        newest_before = b.get(limit=1)
        nid = newest_before[0].id if newest_before else None
        try:
            if prehistory and n == 0:
                # ... and the stream's first event got there the same way (insert, then replace_last with a
                # fresh id-less event of the same content), so the stream CONTINUES such an event
                b.insert(emb.ev(s, d, labs[lab]))
                b.replace_last(emb.ev(s, d, labs[lab]))
                how = "inserted"
            else:
                how = ingest(b, emb.ev(s, d, labs[lab]), pulsetime)
        except Exception as e:
            probs.append(("raised-" + type(e).__name__, str(e), n))
            break
        u.transitions += 1
        u.evaluations += 1
        u.hist[how] += 1
        dump = S.dump_bucket(ds, bid)
        got = sorted(t[1:] for t in dump)
        ref = heartbeat_reduce([emb.ev(*x[:2], labs[x[2]]) for x in stream[: n + 1]], pulsetime)
        want = sorted(pre + [_content(e) for e in ref])
        if got != want:
            probs.append(("bucket-differs-from-reduce" + (":with-prehistory" if prehistory else ""), f"after heartbeat {n} bucket {got} != {'earlier events + ' if prehistory else ''}heartbeat_reduce {want}", n))
        now = {t[0]: t[1:] for t in dump}
        for i, c in prev.items():
            if i != nid and now.get(i) != c:
                probs.append(("earlier-event-altered", f"after heartbeat {n} event id {i} was {c} now {now.get(i)}", n))
        prev = now
        if S.dump_bucket(ds, "other") != other0:
            probs.append(("other-bucket-changed", f"after heartbeat {n} the other bucket changed", n))
        if probs:
            break
    return probs


def _tags(stream, p):
    tags = set()
    for (s0, d0, l0), (s1, d1, l1) in zip(stream, stream[1:]):
        if s1 + d1 == s0 + d0:
            tags.add("end_tie")
        if s1 - (s0 + d0) == p:
            tags.add("gap_eq_pulse")
        if l0 != l1:
            tags.add("label_change")
    if any(d == 0 for _, d, _ in stream):
        tags.add("zero_len")
    return tags


def _setup(backend, wdir, emb, N):
    ds = S.fresh(backend, wdir)
    S.mk_bucket(ds, "other")
    labs = _G["labs"]
    # populated before the heartbeat bucket exists (lower ids), ends coincide with every lattice instant
    ds["other"].insert([emb.ev(s, d, labs[l]) for s in range(0, N + 1) for d in (0, 1) for l in (0, 1) if s + d <= N + 1])
    return ds, S.dump_bucket(ds, "other")


def run_stream_noise(ds, backend, emb, stream, p_units, u, other0, labs, noise, bid="hb"):
    """no observation between the heartbeats (an observation flushes the lazily committing store):
    heartbeat, noise, heartbeat, noise, heartbeat; compared with heartbeat_reduce at the end"""
    if bid in ds.buckets():
        ds.delete_bucket(bid)
    S.mk_bucket(ds, bid)
    b = ds[bid]
    pulsetime = p_units * emb.unit_us / 1_000_000
    deleted = []
    for n, (s, d, lab) in enumerate(stream):
        if n > 0:
            if noise[n - 1] == "delete-oldest-event":
                # a user deletes an OLDER event of the heartbeat bucket itself (never the newest one):
                # later heartbeats only touch the newest event, so it simply stays deleted
                evs = b.get(-1)
                if len(evs) >= 2:
                    b.delete(evs[-1].id)
                    deleted.append(_content(evs[-1]))
            else:
                do_noise(ds, noise[n - 1])
        try:
            how = ingest(b, emb.ev(s, d, labs[lab]), pulsetime)
        except Exception as e:
            return [("raised-" + type(e).__name__, str(e), n)]
        u.transitions += 1
        u.evaluations += 1
        u.hist[how] += 1
    dump = S.dump_bucket(ds, bid)
    got = sorted(t[1:] for t in dump)
    if len({t[0] for t in dump}) != len(dump):
        return [("event-ids-not-unique", f"after the stream the bucket holds ids {[t[0] for t in dump]}", len(stream) - 1)]
    want = [_content(e) for e in heartbeat_reduce([emb.ev(*x[:2], labs[x[2]]) for x in stream], pulsetime)]
    for c in deleted:
        if c in want:
            want.remove(c)
    want = sorted(want)
    probs = []
    if got != want:
        probs.append(("bucket-differs-from-reduce", f"after the stream the bucket holds {got} != heartbeat_reduce {want}", len(stream) - 1))
    if S.dump_bucket(ds, "other") != other0:
        probs.append(("other-bucket-changed", "the other bucket changed", len(stream) - 1))
    return probs


def _unit_noise(args):
    """streams x every sequence of noise operations between the heartbeats"""
    backend, unit_us, N, chunk, pts = args
    import itertools

    ctx = _G["ctx"]
    labs = _G["labs"]
    emb = Emb(ctx.base, unit_us)
    u = Unit()
    ds, other0 = _setup(backend, ctx.wdir(), emb, N)
    for stream in chunk:
        for p in pts:
            for noise in itertools.product(NOISE[1:], repeat=len(stream) - 1):
                probs = run_stream_noise(ds, backend, emb, stream, p, u, other0, labs, noise)
                u.traces += 1
                u.states += 1
                u.nontrivial += 1
                for sym, det, n in probs[:1]:
                    case = {"backend": backend, "unit_us": unit_us, "N": N, "stream": [list(x) for x in stream[: n + 1]], "pulsetime_units": p, "noise": list(noise)}
                    u.violation(f"{backend}:{sym}:with-interleaved-{noise[min(n, len(noise)) - 1] if noise else 'none'}", f"{backend} stream {list(stream[: n + 1])} pulsetime {p} with {list(noise)} between heartbeats: {det}", case, size=(n + 1) * 100 + 50)
                    if S.dump_bucket(ds, "other") != other0:
                        ds, other0 = _setup(backend, ctx.wdir(), emb, N)
    S.close_all()
    return u.result()


def _unit_usdur(backend):
    """heartbeats 1 ms apart whose durations are k microseconds, pulsetime (1000 - k) us: every heartbeat
    sits EXACTLY at end + pulsetime of the merged event, whose duration is microsecond-granular
    (a seeded 10 us quantisation of stored durations broke the merge)"""
    ctx = _G["ctx"]
    labs = _G["labs"]
    u = Unit()
    emb = Emb(ctx.base, 1_000)
    ds, other0 = _setup(backend, ctx.wdir(), emb, 4)
    for k in (1, 3, 7, 14, 999):
        for n in (2, 3, 4, 5):
            for labels in ((0,) * n, (0, 0, 1, 1, 0)[:n]):
                if "hb" in ds.buckets():
                    ds.delete_bucket("hb")
                S.mk_bucket(ds, "hb")
                b = ds["hb"]
                p = (1000 - k) / 1_000_000

                def mk(i):
                    from aw_core.models import Event as _E

                    return _E(timestamp=emb.t(i), duration=timedelta(microseconds=k), data={"label": labs[labels[i]]})

                for i in range(n):
                    ingest(b, mk(i), p)
                    u.transitions += 1
                    u.evaluations += 1
                got = sorted(t[1:] for t in S.dump_bucket(ds, "hb"))
                want = sorted(_content(e) for e in heartbeat_reduce([mk(i) for i in range(n)], p))
                u.states += 1
                u.nontrivial += 1
                u.traces += 1
                if got != want:
                    u.violation(f"{backend}:bucket-differs-from-reduce:microsecond-durations", f"{backend}: {n} heartbeats 1 ms apart with durations {k} us, labels {labels}, pulsetime {1000 - k} us: bucket {got} != heartbeat_reduce {want}", {"backend": backend, "kind": "usdur", "k": k, "n": n}, size=n)
    S.close_all()
    return u.result()


def _dispatch(x):
    if x[0] == "usdur":
        return _unit_usdur(x[1])
    return _unit_noise(x[1]) if x[0] == "noise" else _unit(x[1])


def _unit(args):
    backend, unit_us, N, chunk, pts = args
    ctx = _G["ctx"]
    labs = _G["labs"]
    emb = Emb(ctx.base, unit_us)
    u = Unit()
    ds, other0 = _setup(backend, ctx.wdir(), emb, N)
    seen_nt = set()
    for stream in chunk:
        for p in pts:
            probs = run_stream(ds, backend, emb, stream, p, u, other0, labs)
            u.traces += 1
            if not probs and len(stream) <= 2:
                probs = run_stream(ds, backend, emb, stream, p, u, other0, labs, prehistory=True)
                u.traces += 1
            for k in range(2, len(stream) + 1):
                pre = stream[:k]
                if (pre, p) not in seen_nt and (_tags(pre, p) & {"end_tie", "zero_len", "gap_eq_pulse"}):
                    seen_nt.add((pre, p))
            for sym, det, n in probs[:1]:
                case = {"backend": backend, "unit_us": unit_us, "N": N, "stream": [list(x) for x in stream[: n + 1]], "pulsetime_units": p}
                u.violation(f"{backend}:{sym}", f"{backend} stream {list(stream[: n + 1])} pulsetime {p}: {det}", case, size=(n + 1) * 100 + len(json.dumps(case)))
                if S.dump_bucket(ds, "other") != other0:
                    ds, other0 = _setup(backend, ctx.wdir(), emb, N)
    u.extra["nt"] = len(seen_nt)
    if chunk:
        u.sample({"backend": backend, "unit_us": unit_us, "stream": [list(x) for x in chunk[0]], "pulsetimes": list(pts)}, cap=1)
    S.close_all()
    r = u.result()
    r["nontrivial"] = len(seen_nt)  # prefixes of length >= 2; units are split on the first two heartbeats so such prefixes never straddle units
    return r


def run(ctx):
    _G["ctx"] = ctx
    _G["labs"] = (ctx.labels[0], ctx.labels[1])
    bd = BOUNDS[ctx.tier]
    L = bd["max_len"]
    N = 5 if not ctx.thorough else 6
    pts = bd["pulsetimes_units"]
    allstreams = list(streams(N, L))
    # partition by first two heartbeats so that prefixes of length>=2 never straddle chunks
    groups = {}
    for st in allstreams:
        groups.setdefault(st[:2], []).append(st)
    glist = [groups[k] for k in sorted(groups)]
    units = []
    for unit_us in bd["units_us"]:
        for backend in S.BACKENDS:
            # pack groups into ~workers*3 units
            packs = [[] for _ in range(ctx.workers * (6 if backend == "peewee" else 2))]
            for i, g in enumerate(sorted(glist, key=len, reverse=True)):
                packs[i % len(packs)].extend(g)
            for pk in packs:
                if pk:
                    units.append((backend, unit_us, N, pk, tuple(pts)))
    units.sort(key=lambda x: x[0] != "peewee")
    units = [("plain", x) for x in units]
    # phase 2: sub-second lattice (1 ms) -- several events inside one calendar second
    ms_streams = list(streams(4, 3))
    for backend in S.BACKENDS:
        for ch in chunked(ms_streams, ctx.workers):
            units.append(("plain", (backend, 1_000, 4, ch, (0, 1))))
            units.append(("plain", (backend, 100_000, 4, ch, (1,))))
            # 12 h lattice: merged events grow past 24 h (a seeded integer rewrite forgot duration.days)
            units.append(("plain", (backend, 43_200_000_000, 4, ch, (1,))))
    for backend in S.BACKENDS:
        units.append(("usdur", backend))
    # phase 3: every sequence of noise operations (reads of / rejected operations on other buckets) between heartbeats
    nstreams = sorted({s[:k] for s in streams(4 if not ctx.thorough else 5, 3) for k in (2, 3) if len(s) >= k})
    for backend in S.BACKENDS:
        for ch in chunked(nstreams, ctx.workers * (2 if backend == "peewee" else 1)):
            units.append(("noise", (backend, 1_000_000, 4 if not ctx.thorough else 5, ch, (1,))))
    agg = Agg()
    for r in ctx.pmap(_dispatch, units):
        agg.add(r)
    nprefix = count_prefixes(N, L)
    noise_states = agg.states
    agg.states = nprefix * len(pts) * len(S.BACKENDS) * len(bd["units_us"]) + count_prefixes(4, 3) * 3 * len(S.BACKENDS) + noise_states
    agg.extra["streams_with_noise_sequences"] = noise_states
    agg.extra["maximal_streams"] = len(allstreams)
    agg.extra["distinct_prefixes_per_backend_and_pulsetime"] = nprefix
    # length-1 prefixes (shared between units) are counted here, once: the zero-length ones
    agg.nontrivial += sum(1 for s in range(N + 1) for _ in (0, 1)) * len(pts) * len(S.BACKENDS) * len(bd["units_us"])
    ctx.selfcheck(agg.hist.get("merged", 0) > 0 and agg.hist.get("inserted", 0) > 0, "vacuous: no merge or no insert happened")
    ctx.selfcheck(agg.nontrivial > 0, "no non-trivial prefix")
    return agg


def run_case(ctx, case):
    _G["ctx"] = ctx
    _G["labs"] = (ctx.labels[0], ctx.labels[1])
    if case.get("kind") == "usdur":
        r = _unit_usdur(case["backend"])
        return {"violations": [[v["key"], v["what"]] for v in r["violations"]]}
    emb = Emb(ctx.base, case["unit_us"])
    u = Unit()
    ds, other0 = _setup(case["backend"], ctx.wdir(), emb, case["N"])
    stream = [tuple(x) for x in case["stream"]]
    if case.get("noise"):
        probs = run_stream_noise(ds, case["backend"], emb, stream, case["pulsetime_units"], u, other0, _G["labs"], tuple(case["noise"]) + ("none",) * len(stream))
        return {"stream": stream, "noise": case["noise"], "bucket_after": S.dump_bucket(ds, "hb"), "violations": [list(p) for p in probs]}
    probs = run_stream(ds, case["backend"], emb, stream, case["pulsetime_units"], u, other0, _G["labs"])
    if not probs:
        probs = run_stream(ds, case["backend"], emb, stream, case["pulsetime_units"], u, other0, _G["labs"], prehistory=True)
    return {"stream": stream, "bucket_after": S.dump_bucket(ds, "hb"), "violations": [list(p) for p in probs]}
