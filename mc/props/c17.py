"""C17 -- any query text either parses or is rejected with a query error, and terminates.

Explorer P: (a) ALL strings up to a length bound over an 19-symbol token alphabet,
each in three contexts; (b) every single-edit corruption (delete / duplicate /
swap / insert each symbol at each position) of a corpus of valid programs;
(c) every built-in called with 0..arity+1 arguments and with every top-level
type in every position (error class checked)."""
import itertools
import json
import os
import signal
import time
import traceback
from datetime import datetime, timedelta, timezone

from aw_query import query2
from aw_query.exceptions import QueryException, QueryFunctionException, QueryInterpretException, QueryParseException
from aw_query.functions import functions as REGISTRY
from mc.core import Agg, Unit
from mc.lattice import chunked
from mc.props import c11
from mc.ref import queryeval as Q

ALPHABET = ("a", "1", '"', "'", "(", ")", "[", "]", "{", "}", ",", ":", "=", ";", " ", "\\", "nop", "²", "-")
CONTEXTS = ("{}", "RETURN = {}", "RETURN = args1({})")
BOUNDS = {
    "quick": {"strings": "all strings of <=5 symbols over the 19-symbol alphabet (2.6 M) x 3 contexts", "corruptions": "every single edit (delete, duplicate, swap adjacent, insert each of 19 symbols) of a 30-program corpus", "resolution": "every registered built-in x 0..arity+1 arguments x 6 top-level types per position"},
    "thorough": {"strings": "<=6 symbols (50 M) x 3 contexts", "corruptions": "additionally all double edits of the 8 shortest corpus programs", "resolution": "as quick"},
}
RULE = (
    "every enumerated text is run through aw_query.query2.query under a 5 s CPU-time alarm (ITIMER_PROF: immune to a loaded machine); the outcome must be a value or a QueryException subclass (other exceptions only if raised inside a transform / q2_* function body = deep data-shape errors, counted separately); "
    "non-trivial = texts that the reference parser rejects (malformed) or that fail name/arity/type resolution"
)
ASSUMPTIONS = [
    "exceptions whose innermost frame is inside aw_transform/* or inside the body of a q2_* function are data-shape errors below the top level and are outside the statement (counted in evidence, not flagged)",
    "termination is checked as 'finishes within 5 s' (typical execution 20-50 us)",
    "the expected error CLASS is only checked for the resolution part (c); for arbitrary texts only membership in the query-error family is required",
]
_G = {}
START = c11.START
END = c11.END


class Timeout(Exception):
    pass


class TooManyHangs(Exception):
    """a unit stops after its second non-terminating text (each costs the 5 s alarm): the violation is
    established, the run is reported as not exhaustive"""


def _alarm(signum, frame):
    raise Timeout()


_PROGRESS = {}


def _progress(text):
    """note (time, text) in a per-process mmap so that the parent can name the text a worker is stuck
    on: a signal handler cannot interrupt C code such as a backtracking regular expression"""
    import mmap
    import os
    import struct

    pid = os.getpid()
    m = _PROGRESS.get(pid)
    if m is None:
        path = os.path.join(_G["ctx"].scratch, f"c17-progress-{pid}")
        with open(path, "wb") as f:
            f.write(b"\0" * 8192)
        fd = os.open(path, os.O_RDWR)
        m = mmap.mmap(fd, 8192)
        _PROGRESS.clear()
        _PROGRESS[pid] = m
    b = text.encode("utf-8", "replace")[:8000]
    m[0:12] = struct.pack("<dI", time.time(), len(b))
    m[12 : 12 + len(b)] = b


def stuck_texts(scratch, older_than):
    import glob
    import struct

    out = []
    now = time.time()
    for path in glob.glob(os.path.join(scratch, "c17-progress-*")):
        pid = int(path.rsplit("-", 1)[1])
        try:
            os.kill(pid, 0)
        except OSError:
            continue
        with open(path, "rb") as f:
            raw = f.read(8192)
        t, n = struct.unpack("<dI", raw[:12])
        if t and now - t > older_than:
            out.append((raw[12 : 12 + n].decode("utf-8", "replace"), now - t))
    return out


def run_text(text, ds):
    """-> (kind, detail) kind in value | Parse | Interpret | Function | Query | deep | other | timeout"""
    _progress(text)
    signal.setitimer(signal.ITIMER_PROF, 5.0)
    try:
        query2.query("q", text, START, END, ds)
        return ("value", "")
    except QueryParseException as e:
        return ("Parse", "")
    except QueryInterpretException as e:
        return ("Interpret", "")
    except QueryFunctionException as e:
        return ("Function", "")
    except QueryException as e:
        return ("Query", "")
    except Timeout:
        return ("timeout", "")
    except RecursionError as e:
        return ("other", "RecursionError")
    except Exception as e:
        tb = traceback.extract_tb(e.__traceback__)
        last = tb[-1]
        fn = last.filename.replace("\\", "/")
        where = f"{fn.split('/')[-2]}/{fn.split('/')[-1]}:{last.name}"
        # raised while a transform / q2_* function BODY was executing (possibly deeper, e.g. inside
        # `re` for an invalid regex value): a data-shape error after parsing and resolution succeeded.
        # (An earlier version looked at the innermost frame only and flagged re.error -- false alarm.)
        for fr in tb:
            f2 = fr.filename.replace("\\", "/")
            if "/aw_transform/" in f2 or (f2.endswith("aw_query/functions.py") and fr.name.startswith("q2_")):
                return ("deep", f"{type(e).__name__}@{where}")
        return ("other", f"{type(e).__name__}@{where}")
    finally:
        signal.setitimer(signal.ITIMER_PROF, 0)


def record(u, text, kind, det, part):
    u.evaluations += 1
    u.transitions += 1
    u.hist["outcome_" + kind] += 1
    if kind == "other":
        u.violation(f"query:escaped-{det}", f"text {text!r} ({part}): {det} escaped from aw_query.query", {"text": text, "part": part}, size=len(text))
    elif kind == "timeout":
        u.violation("query:does-not-terminate", f"text {text!r} ({part}) did not finish within 5 s", {"text": text, "part": part}, size=len(text))
        if u.hist["outcome_timeout"] >= 2:
            raise TooManyHangs()
    elif kind == "deep":
        u.hist["deep_" + det] += 1


def malformed(text):
    try:
        Q.ref_parse_program(text)
        return False
    except Exception:
        return True


def _unit_strings(args, box=None):
    first2, n = args
    ds = _G["ds"]
    u = Unit()
    if box is not None:
        box.append(u)
    for rest in itertools.product(ALPHABET, repeat=max(0, n - len(first2))):
        s = "".join(first2 + rest)
        u.states += 1
        if malformed("RETURN = " + s):
            u.nontrivial += 1
        for c in CONTEXTS:
            text = c.format(s)
            kind, det = run_text(text, ds)
            record(u, text, kind, det, "strings")
    u.sample({"part": "all strings", "prefix": "".join(first2), "length": n, "contexts": list(CONTEXTS)}, cap=1)
    return u.result()


def corpus_texts():
    progs = c11.corpus()[:12]
    bp = c11.builtin_programs()
    progs += [bp[i] for i in range(0, len(bp), max(1, len(bp) // 14))][:14]
    texts = []
    for i, p in enumerate(progs):
        st = (Q.COMPACT, Q.SPACED, Q.NEWLINES)[i % 3]
        texts.append(Q.pr_program(p, st))
    texts += ['RETURN = 1;', 'x = "a"; RETURN = x;', "RETURN = {'a': [1, {'b': nop()}]};", 'RETURN = query_bucket(find_bucket("b1"));']
    return texts


def edits(t):
    out = set()
    for i in range(len(t)):
        out.add(t[:i] + t[i + 1 :])
        out.add(t[:i] + t[i] + t[i:])
        if i + 1 < len(t):
            out.add(t[:i] + t[i + 1] + t[i] + t[i + 2 :])
    for i in range(len(t) + 1):
        for a in ALPHABET:
            out.add(t[:i] + a + t[i:])
    out.discard(t)
    return sorted(out)


def _unit_edits(args, box=None):
    texts, double = args
    ds = _G["ds"]
    u = Unit()
    if box is not None:
        box.append(u)
    for t in texts:
        es = edits(t)
        if double:
            es2 = set()
            for e in es[:: max(1, len(es) // 400)]:
                es2.update(edits(e))
            es = sorted(es2)
        for e in es:
            u.states += 1
            if malformed(e):
                u.nontrivial += 1
            kind, det = run_text(e, ds)
            record(u, e, kind, det, "corruption")
    if texts:
        u.sample({"part": "single-edit corruptions" if not double else "double-edit corruptions", "of": texts[0][:120]}, cap=1)
    return u.result()


TYPE_VALUES = (("int", "1"), ("str", '"b1"'), ("list", "[]"), ("list-of-events", 'query_bucket("b1")'), ("dict", '{"a": 1}'), ("nested-call", "nop()"))


# documented top-level parameter types of the built-ins (independent of the implementation's own
# annotations: a seeded re-annotation of a parameter silently switched its type check off)
SIGNATURES = {
    "find_bucket": (str, None),
    "query_bucket": (str,),
    "query_bucket_eventcount": (str,),
    "filter_keyvals": (list, str, list),
    "exclude_keyvals": (list, str, list),
    "filter_keyvals_regex": (list, str, str),
    "filter_period_intersect": (list, list),
    "period_union": (list, list),
    "limit_events": (list, int),
    "merge_events_by_keys": (list, list),
    "chunk_events_by_key": (list, str),
    "sort_by_timestamp": (list,),
    "sort_by_duration": (list,),
    "sum_durations": (list,),
    "concat": (list, list),
    "union_no_overlap": (list, list),
    "flood": (list,),
    "split_url_events": (list,),
    "simplify_window_titles": (list, str),
    "nop": (),
    "categorize": (list, list),
    "tag": (list, list),
}


def arity(name):
    import inspect

    f = REGISTRY[name]
    inner = inspect.unwrap(f)
    sig = inspect.signature(inner)
    ps = [p for p in sig.parameters.values() if p.annotation.__class__.__name__ != "_GenericAlias" or True]
    from aw_datastore import Datastore
    from aw_query.functions import TNamespace

    ps = [p for p in sig.parameters.values() if p.annotation is not Datastore and p.annotation != TNamespace]
    req = [p for p in ps if p.default is p.empty]
    anns = [p.annotation for p in ps]
    if name in SIGNATURES and len(SIGNATURES[name]) == len(ps):
        anns = list(SIGNATURES[name])
    return len(req), len(ps), anns


def _unit_resolution(names):
    ds = _G["ds"]
    u = Unit()
    for name in names:
        nreq, nmax, anns = arity(name)
        for n in range(0, nmax + 2):
            for combo in itertools.product(TYPE_VALUES, repeat=n):
                text = f"RETURN = {name}({', '.join(v for _, v in combo)});"
                u.states += 1
                u.nontrivial += 1
                kind, det = run_text(text, ds)
                record(u, text, kind, det, "resolution")
                want = None
                badtype = False
                for (tname, _), ann in zip(combo, anns):
                    py = {"int": int, "str": str, "list": list, "list-of-events": list, "dict": dict, "nested-call": int}[tname]
                    if ann in (list, str, int, float) and py is not ann:
                        badtype = True
                if n < nreq or n > nmax:
                    # wrong count AND a wrong type: the statement does not say which is reported first
                    want = None if badtype else "Interpret"
                    if badtype and kind not in ("Interpret", "Function", "other", "timeout"):
                        u.violation(f"query:wrong-error-class:Interpret-or-Function-expected-got-{kind}", f"{text!r}: expected an interpret or function error, got {kind} {det}", {"text": text, "part": "resolution"}, size=len(text))
                elif badtype:
                    want = "Function"
                if want and kind not in (want, "other", "timeout"):
                    u.violation(f"query:wrong-error-class:{want}-expected-got-{kind}", f"{text!r}: expected a {want} error, got {kind} {det}", {"text": text, "part": "resolution", "want": want}, size=len(text))
        for text, want in ((f"RETURN = {name}x();", "Interpret"), (f"RETURN = {name}(undefined_variable);", "Interpret")):
            kind, det = run_text(text, ds)
            record(u, text, kind, det, "resolution")
            if kind not in (want, "other", "timeout"):
                u.violation(f"query:wrong-error-class:{want}-expected-got-{kind}", f"{text!r}: expected a {want} error, got {kind}", {"text": text, "part": "resolution", "want": want}, size=len(text))
    # an unknown variable or function is an interpret error WHEREVER it stands (seeded: a fast path for flat
    # list literals returned the tokens' stored values and never looked the variable up)
    for inner in ("nosuch", "nosuch()", "nosuch(1)"):
        for tmpl in ("RETURN = [{}];", "RETURN = [1, {}];", "RETURN = [{}, \"s\"];", "RETURN = [[{}]];", 'RETURN = {{"a": {}}};', 'RETURN = {{"a": [{}]}};', 'RETURN = [{{"a": {}}}];',
                     "RETURN = id1([{}]);", 'RETURN = args2(1, {{"k": {}}});', "x = [{}]; RETURN = 1;", "x = 1; RETURN = [x, {}];", "RETURN = sum_durations([{}]);"):
            text = tmpl.format(inner)
            kind, det = run_text(text, ds)
            record(u, text, kind, det, "resolution")
            if kind not in ("Interpret", "other", "timeout"):
                u.violation(f"query:wrong-error-class:Interpret-expected-got-{kind}", f"{text!r}: an unknown name must be an interpret error, got {kind} {det}", {"text": text, "part": "resolution", "want": "Interpret"}, size=len(text))
    for text in (
        'RETURN = query_bucket("nope");',
        'RETURN = query_bucket_eventcount("nope");',
        'RETURN = find_bucket("nope");',
        'RETURN = find_bucket("nope", "host1");',
        'RETURN = find_bucket("b1", "no-such-host");',  # id matches, hostname does not: still "no such bucket"
        'RETURN = find_bucket("b", "no-such-host");',
        'RETURN = query_bucket(find_bucket("b2", "host1"));',
        # the optional hostname is not type-checked, so ANY value may arrive there: no bucket has such a
        # hostname, which is an unknown bucket (seeded: hostname.lower() raised AttributeError for 1)
        'RETURN = find_bucket("b1", 1);',
        'RETURN = find_bucket("b1", [1]);',
        'RETURN = find_bucket("b1", {"a": 1});',
        'RETURN = find_bucket("b", nop());',
        'RETURN = find_bucket("", 7);',
        # ids that are FRAGMENTS of existing ids (or of any listing of them) are unknown buckets too
        # (seeded: existence tested with `in` against the joined id text)
        'RETURN = query_bucket("b");',
        'RETURN = query_bucket("");',
        'RETURN = query_bucket("1");',
        'RETURN = query_bucket("b1, b2");',
        'RETURN = query_bucket("b1,b2");',
        'RETURN = query_bucket_eventcount("b");',
        'RETURN = query_bucket_eventcount("");',
        'RETURN = query_bucket("B1");',
        'RETURN = query_bucket("b1 ");',
    ):
        kind, det = run_text(text, ds)
        record(u, text, kind, det, "resolution")
        if kind not in ("Function", "other", "timeout"):
            u.violation(f"query:wrong-error-class:Function-expected-got-{kind}", f"{text!r}: unknown bucket must be a function error, got {kind}", {"text": text, "part": "resolution", "want": "Function"}, size=len(text))
    # a bucket that existed when it was first queried and has been deleted since is an unknown bucket too
    from aw_datastore import Datastore
    from aw_datastore.storages import MemoryStorage

    ds2 = Datastore(MemoryStorage, testing=True)
    for rounds in range(2):
        ds2.create_bucket("gone", "t", "c", "h", created=c11.T0)
        for text in ('RETURN = query_bucket("gone");', 'RETURN = query_bucket_eventcount("gone");', 'RETURN = query_bucket(find_bucket("gon"));'):
            kind, det = run_text(text, ds2)
            record(u, text, kind, det, "resolution-history")
            if kind != "value":
                u.violation(f"query:existing-bucket-rejected-{kind}", f"{text!r} on an existing bucket: {kind} {det}", {"text": text, "part": "history"}, size=len(text))
        ds2.delete_bucket("gone")
        for text in ('RETURN = query_bucket("gone");', 'RETURN = query_bucket_eventcount("gone");', 'RETURN = query_bucket(find_bucket("gon"));'):
            kind, det = run_text(text, ds2)
            record(u, text, kind, det, "resolution-history")
            if kind not in ("Function", "other", "timeout"):
                u.violation(f"query:wrong-error-class:Function-expected-got-{kind}", f"{text!r} after the bucket was deleted: unknown bucket must be a function error, got {kind} {det}", {"text": text, "part": "history"}, size=len(text))
    if names:
        u.sample({"part": "resolution", "function": names[0], "argument_counts": "0..arity+1", "types_per_position": [t for t, _ in TYPE_VALUES]}, cap=1)
    return u.result()


def _dispatch(x):
    signal.signal(signal.SIGPROF, _alarm)
    return {"s": _guard(_unit_strings), "e": _guard(_unit_edits), "r": _unit_resolution}[x[0]](x[1])


def _guard(f):
    import functools

    @functools.wraps(f)
    def g(args):
        box = []
        try:
            return f(args, box)
        except TooManyHangs:
            r = box[0].result()
            r["extra"] = dict(r.get("extra") or {}, aborted_after_hangs=1)
            r["exhaustive"] = False
            r["caps"] = ["a work unit stopped after its second non-terminating query"]
            return r

    return g


def _cfg(ctx):
    c11._cfg(ctx)
    _G["ctx"] = ctx
    _G["ds"] = c11._G["ds"]


def run(ctx):
    _cfg(ctx)
    units = []
    N = 6 if ctx.thorough else 5
    units.append(("s", ((), 0)))
    units.append(("s", ((), 1)))
    for n in range(2, N + 1):
        for a in ALPHABET:
            for b in ALPHABET:
                units.append(("s", ((a, b), n)))
    texts = corpus_texts()
    for t in texts:
        units.append(("e", ([t], False)))
    if ctx.thorough:
        for t in sorted(texts, key=len)[:8]:
            units.append(("e", ([t], True)))
    names = sorted(n for n in REGISTRY if n not in ("args0", "args1", "args2", "args3", "args4", "id1"))
    for ch in chunked(names, len(names)):
        units.append(("r", ch))
    agg = Agg()
    # own pool loop (instead of ctx.pmap): if no unit finishes for a long time, some worker is stuck
    # inside C code that the 5 s alarm cannot interrupt; name the text from its progress record
    import multiprocessing as mp

    mpctx = mp.get_context("fork")
    pool = mpctx.Pool(ctx.workers)
    it = pool.imap_unordered(_dispatch, units)  # chunksize 1: the iterator then supports next(timeout)
    done = 0
    hangs = 0
    try:
        while True:
            try:
                r = it.next(timeout=90)
            except StopIteration:
                break
            except mp.TimeoutError:
                st = stuck_texts(ctx.scratch, 30)
                if not st:
                    continue
                for text, age in st[:3]:
                    agg.violations.append({"key": "query:does-not-terminate", "what": f"text {text[:200]!r} has been running for {age:.0f} s (not interruptible by the 5 s alarm)", "case": {"text": text, "part": "hang"}, "size": len(text), "count": 1})
                agg.exhaustive = False
                agg.caps.append("exploration stopped after a non-terminating query was found")
                break
            agg.add(r)
            done += 1
            if (r.get("extra") or {}).get("aborted_after_hangs"):
                hangs += 1
                if hangs >= 3:
                    agg.exhaustive = False
                    agg.caps.append("exploration stopped after three work units each found two non-terminating queries")
                    break
    finally:
        pool.terminate()
    agg.extra["corpus_programs"] = len(texts)
    agg.extra["deep_data_shape_errors_not_flagged"] = {k[5:]: v for k, v in agg.hist.items() if k.startswith("deep_")}
    if agg.exhaustive:  # a run cut short by non-terminating queries has a violation to report, not a vacuity problem
        ctx.selfcheck(agg.hist.get("outcome_value", 0) > 0 and agg.hist.get("outcome_Parse", 0) > 0 and agg.hist.get("outcome_Interpret", 0) > 0 and agg.hist.get("outcome_Function", 0) > 0, "vacuous: not all outcome classes were seen")
    return agg


def run_case(ctx, case):
    _cfg(ctx)
    signal.signal(signal.SIGPROF, _alarm)
    if case.get("part") == "hang":
        import multiprocessing as mp

        p = mp.get_context("fork").Process(target=run_text, args=(case["text"], _G["ds"]))
        p.start()
        p.join(20)
        hung = p.is_alive()
        if hung:
            p.kill()
        return {"text": case["text"], "outcome": "still running after 20 s" if hung else "finished", "violations": [["does-not-terminate", "20 s"]] if hung else []}
    kind, det = run_text(case["text"], _G["ds"])
    bad = kind in ("other", "timeout") or (case.get("want") and kind != case["want"])
    return {"text": case["text"], "outcome": kind, "detail": det, "violations": [[kind, det]] if bad else []}
