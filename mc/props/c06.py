"""C06 -- after a crash the database holds a prefix of what was done, minus a bounded tail.

Explorer K (see kcommon): BFS to fixpoint over histories of event writes (single,
bulk 2/49/50/51, mixed upsert+insert, replace, replace_last, delete), reads,
bucket operations and a clock step on the real sqlite (lazy commit) and peewee
(auto-commit) stores; crash image before every SQL statement of the last
operation and at its return."""
from mc.props import kcommon

# delete(never-existed id) is explored in the small 'deletes' configuration only: it counts as a
# statement without being a write, which squares the (counter, pending) part of the state space
ALPHA_SQLITE = ("ins1", "bulk2", "bulk49", "bulk50", "bulk51", "mix", "ups", "rep", "repl", "del", "get", "get_id", "count", "mkB2", "insB2", "updB2", "delB2", "updB1", "clock+11", "delB2x", "updB2x", "staleB2bulk", "badbulk", "bulk49B2", "bulk130")
ALPHA_PEEWEE = ("ins1", "bulk2", "bulk51", "mix", "ups", "ups2", "rep", "repl", "del", "delx", "get", "mkB2", "insB2", "updB2", "delB2", "updB1", "delB2x", "updB2x", "staleB2bulk", "badbulk")
# equivalent-class duplicates left to the thorough tier (a second read flavour, a second bucket-update target)
QUICK_DROPS = ("get_id", "count", "updB2", "bulk49")
BOUNDS = {
    "fault_ops": "delete/update of an absent bucket and a bulk insert through a stale handle of a deleted bucket must raise, change nothing, and leave later operations as durable as before",
    "big_buckets": "delete_bucket / update_bucket of a second bucket holding 999, 1000, 1001, 2300 events (sqlite) and 1001 events (peewee), crash image at every statement",
    "migrated_start": "sqlite stores opened (default path) beside a legacy database holding 1/30/49/50/51 events, followed by up to 56 single inserts / one 49-bulk / 28 2-bulks / 56 deletes with a crash image at every return",
    "quick": {"sqlite": [o for o in ALPHA_SQLITE if o not in QUICK_DROPS], "peewee": list(ALPHA_PEEWEE), "initial_state": "bucket B1 with 2 single-inserted events, flushed", "deletes": "a second sqlite configuration starts from 70 single-inserted events and explores delete/insert/read only, so that > 64 buffered deletions are reachable"},
    "thorough": {"as": "quick", "plus": "clock +1/+9 in the sqlite alphabet, peewee with bulk 49/50 and 101/201-row bulk inserts"},
}
RULE = (
    "BFS to fixpoint over operation histories, deduplicated on (hidden object state incl. uncommitted counter, pending elementary writes, elapsed virtual seconds since last flush capped at 12, enabledness classes); "
    "every transition is executed on a fresh real store with a crash image (files copied, reopened by the real constructor / a fresh connection) before every SQL statement of the last op and at its return; "
    "non-trivial = transitions that return with buffered (not yet durable) writes"
)
ASSUMPTIONS = [
    "process death, not power loss: the files as written are what the next process sees; SQLite's own atomic commit is trusted",
    "'a few dozen, about 50' is checked as <= 64 elementary writes missing after an operation returns",
    "the content of events cannot influence the commit decision (canonical form abstracts it); event contents are unique so every chain state is distinct",
    "the in-process crash image is validated against real SIGKILL / exit-without-shutdown of a forked child at 12 designated points per backend on every run",
]


def configs(ctx):
    c = [
        {"name": "sqlite/main", "backend": "sqlite", "alphabet": (ALPHA_SQLITE + ("clock+1", "clock+9")) if ctx.thorough else tuple(o for o in ALPHA_SQLITE if o not in QUICK_DROPS), "cap_s": 3600 if ctx.thorough else 1800},
        {"name": "sqlite/deletes", "backend": "sqlite", "alphabet": ("del", "ins1", "get", "delx"), "seed_events": 70, "max_states": 6000},
        # bucket-level operations on BIG buckets: delete_bucket / update_bucket of a bucket holding
        # 999 / 1000 / 1001 / 2300 events, crash image at every statement (seeded: events deleted in
        # batches of 1000 with a commit after each full batch)
        {"name": "sqlite/bigbucket-999", "backend": "sqlite", "alphabet": ("delB2", "updB2"), "seed_B2": 999, "max_depth": 1, "depth_is_the_bound": True},
        {"name": "sqlite/bigbucket-1000", "backend": "sqlite", "alphabet": ("delB2", "updB2"), "seed_B2": 1000, "max_depth": 1, "depth_is_the_bound": True},
        {"name": "sqlite/bigbucket-1001", "backend": "sqlite", "alphabet": ("delB2", "updB2"), "seed_B2": 1001, "max_depth": 1, "depth_is_the_bound": True},
        {"name": "sqlite/bigbucket-2300", "backend": "sqlite", "alphabet": ("delB2", "updB2"), "seed_B2": 2300, "max_depth": 1, "depth_is_the_bound": True},
        {"name": "peewee/bigbucket-1001", "backend": "peewee", "alphabet": ("delB2", "updB2"), "seed_B2": 1001, "max_depth": 1, "depth_is_the_bound": True},
        {"name": "peewee", "backend": "peewee", "alphabet": ALPHA_PEEWEE + (("bulk49", "bulk50") if ctx.thorough else ())},
    ]
    return c


# ---------------------------------------------------------------------------
# stores that START from a migrated legacy database (the other way a store comes to hold events
# without any call of the application): the bounded tail must hold from there too
MIG_LEGACY_SIZES = (1, 30, 49, 50, 51)
MIG_FOLLOW = (("ins1", 56), ("bulk49", 1), ("bulk2", 28), ("del", 56))


def _unit_migrated(args):
    import os
    import shutil
    import sqlite3
    from datetime import datetime, timedelta, timezone

    from aw_core.models import Event
    from aw_datastore import Datastore
    from aw_datastore.storages import PeeweeStorage, SqliteStorage
    from aw_datastore.storages import peewee as pw
    from mc.core import Unit
    from mc.drivers import crash as K
    from mc.drivers import stores as S

    n_legacy, (follow, reps) = args
    ctx = kcommon._G["ctx"]
    root = os.path.join(ctx.wdir(), f"mig-{n_legacy}-{follow}")
    keep = os.environ.get("XDG_DATA_HOME")
    u = Unit()
    T0 = datetime(2019, 3, 4, 5, 6, 7, tzinfo=timezone.utc)
    try:
        shutil.rmtree(root, ignore_errors=True)
        os.makedirs(root)
        os.environ["XDG_DATA_HOME"] = root
        S.close_all()
        K.release_clock()
        legacy = Datastore(PeeweeStorage, testing=True)
        legacy.create_bucket("L", type="t", client="c", hostname="h", created=T0, name="legacy")
        evs = [Event(timestamp=T0 + timedelta(seconds=i), duration=timedelta(milliseconds=i % 5), data={"legacy": i}) for i in range(n_legacy)]
        legacy["L"].insert(evs if len(evs) > 1 else evs[0])
        pw._db.close()
        new = Datastore(SqliteStorage, testing=True)  # default path: migration runs
        st = new.storage_strategy
        path = [r[2] for r in st.conn.execute("PRAGMA database_list")][0]
        written = n_legacy
        serial = 0
        ids = []

        def durable():
            img = os.path.join(root, "img.db")
            K.write_image(K.file_bytes(path), img)
            c = sqlite3.connect(img)
            try:
                nb = c.execute("SELECT count(*) FROM buckets").fetchone()[0]
                ne = c.execute("SELECT count(*) FROM events").fetchone()[0]
            finally:
                c.close()
            return nb, ne

        def look(when):
            u.transitions += 1
            u.evaluations += 1
            u.traces += 1
            u.hist["crash_points_at_returns"] += 1
            nb, ne = durable()
            case = {"kind": "migrated", "legacy_events": n_legacy, "follow": follow, "after": when}
            if nb != 1:
                u.violation("sqlite:migrated-start:bucket-not-durable", f"store opened beside a legacy database with {n_legacy} events, {when}: the reopened database has {nb} buckets", case, size=n_legacy * 100 + serial)
            pend = pending[0]
            if pend > 64:
                u.nontrivial += 1
            missing = written_now[0] - ne if follow != "del" else None
            if follow != "del":
                if missing > 64:
                    u.violation("sqlite:migrated-start:too-many-buffered-writes", f"store opened beside a legacy database with {n_legacy} events, {when}: {missing} elementary event writes are missing from the reopened database (bound: about 50, checked as 64)", case, size=n_legacy * 100 + serial)
                if missing:
                    u.nontrivial += 1
            else:
                # deletions: durable count may exceed the live count by the buffered deletions and fall
                # short of it by the buffered insertions; bound the distance both ways
                if abs(ne - written_now[0]) > 64:
                    u.violation("sqlite:migrated-start:too-many-buffered-writes", f"store opened beside a legacy database with {n_legacy} events, {when}: the reopened database holds {ne} events, {written_now[0]} are live (bound: about 50, checked as 64)", case, size=n_legacy * 100 + serial)

        pending = [0]
        written_now = [written]
        look("straight after the constructor returned")
        b = new["L"]
        for r in range(reps):
            if follow == "ins1":
                serial += 1
                b.insert(Event(timestamp=T0 + timedelta(hours=1, seconds=serial), duration=0, data={"n": serial}))
                written_now[0] += 1
            elif follow.startswith("bulk"):
                k = int(follow[4:])
                b.insert([Event(timestamp=T0 + timedelta(hours=1, seconds=serial + i + 1), duration=0, data={"n": serial + i + 1}) for i in range(k)])
                serial += k
                written_now[0] += k
            elif follow == "del":
                if not ids:
                    # ids of the migrated events, read on the store's own connection without going
                    # through the storage API (whose reads flush)
                    ids = [row[0] for row in st.conn.execute("SELECT id FROM events ORDER BY id")]
                if r >= len(ids):
                    break
                b.delete(ids[r])
                written_now[0] -= 1
            look(f"after {r + 1} x {follow}")
        u.states += 1
        u.sample({"kind": "store started from a migrated legacy database", "legacy_events": n_legacy, "then": f"{reps} x {follow}", "crash_image": "at every return"}, cap=1)
    finally:
        try:
            pw._db.close()
        except Exception:
            pass
        S.close_all()
        if keep is None:
            os.environ.pop("XDG_DATA_HOME", None)
        else:
            os.environ["XDG_DATA_HOME"] = keep
        shutil.rmtree(root, ignore_errors=True)
    return u.result()


def run(ctx):
    agg = kcommon.run_k(ctx, "c06", configs(ctx))
    units = [(n, f) for n in MIG_LEGACY_SIZES for f in MIG_FOLLOW]
    for r in ctx.pmap(_unit_migrated, units):
        agg.add(r)
    agg.extra["migrated_start_runs"] = len(units)
    return agg


def run_case(ctx, case):
    if case.get("kind") == "migrated":
        kcommon._G["ctx"] = ctx
        f = [x for x in MIG_FOLLOW if x[0] == case["follow"]][0]
        r = _unit_migrated((case["legacy_events"], f))
        return {"violations": [[v["key"], v["what"]] for v in r["violations"]]}
    return kcommon.replay_case(ctx, dict(case, oracle="c06"))
