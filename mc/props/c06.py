"""C06 -- after a crash the database holds a prefix of what was done, minus a bounded tail.

Explorer K (see kcommon): BFS to fixpoint over histories of event writes (single,
bulk 2/49/50/51, mixed upsert+insert, replace, replace_last, delete), reads,
bucket operations and a clock step on the real sqlite (lazy commit) and peewee
(auto-commit) stores; crash image before every SQL statement of the last
operation and at its return."""
from mc.props import kcommon

# delete(never-existed id) is explored in the small 'deletes' configuration only: it counts as a
# statement without being a write, which squares the (counter, pending) part of the state space
ALPHA_SQLITE = ("ins1", "bulk2", "bulk49", "bulk50", "bulk51", "mix", "ups", "rep", "repl", "del", "get", "get_id", "count", "mkB2", "insB2", "updB2", "delB2", "updB1", "clock+11", "delB2x", "updB2x", "staleB2bulk", "badbulk")
ALPHA_PEEWEE = ("ins1", "bulk2", "bulk51", "mix", "ups", "ups2", "rep", "repl", "del", "delx", "get", "mkB2", "insB2", "updB2", "delB2", "updB1", "delB2x", "updB2x", "staleB2bulk", "badbulk")
# equivalent-class duplicates left to the thorough tier (a second read flavour, a second bucket-update target)
QUICK_DROPS = ("get_id", "count", "updB2", "bulk49")
BOUNDS = {
    "fault_ops": "delete/update of an absent bucket and a bulk insert through a stale handle of a deleted bucket must raise, change nothing, and leave later operations as durable as before",
    "quick": {"sqlite": [o for o in ALPHA_SQLITE if o not in QUICK_DROPS], "peewee": list(ALPHA_PEEWEE), "initial_state": "bucket B1 with 2 single-inserted events, flushed", "deletes": "a second sqlite configuration starts from 70 single-inserted events and explores delete/insert/read only, so that > 64 buffered deletions are reachable"},
    "thorough": {"as": "quick", "plus": "clock +1/+9 in the sqlite alphabet, peewee with bulk 49/50 and 101/201-row bulk inserts"},
}
RULE = (
    "BFS to fixpoint over operation histories, deduplicated on (hidden object state incl. uncommitted counter, pending elementary writes, elapsed virtual seconds since last flush capped at 12, enabledness classes); "
    "every transition is executed on a fresh real store with a crash image (files copied, reopened by the real constructor / a fresh connection) before every SQL statement of the last op and at its return; "
    "non-trivial = transitions that return with buffered (not yet durable) writes"
)
ASSUMPTIONS = [
    "process death, not power loss: the files as written are what the next process sees; SQLite's own atomic commit is trusted",
    "'a few dozen, about 50' is checked as <= 64 elementary writes missing after an operation returns",
    "the content of events cannot influence the commit decision (canonical form abstracts it); event contents are unique so every chain state is distinct",
    "the in-process crash image is validated against real SIGKILL / exit-without-shutdown of a forked child at 12 designated points per backend on every run",
]


def configs(ctx):
    c = [
        {"name": "sqlite/main", "backend": "sqlite", "alphabet": (ALPHA_SQLITE + ("clock+1", "clock+9")) if ctx.thorough else tuple(o for o in ALPHA_SQLITE if o not in QUICK_DROPS), "cap_s": 900 if ctx.thorough else 240},
        {"name": "sqlite/deletes", "backend": "sqlite", "alphabet": ("del", "ins1", "get", "delx"), "seed_events": 70, "max_states": 6000},
        {"name": "peewee", "backend": "peewee", "alphabet": ALPHA_PEEWEE + (("bulk49", "bulk50") if ctx.thorough else ())},
    ]
    return c


def run(ctx):
    return kcommon.run_k(ctx, "c06", configs(ctx))


def run_case(ctx, case):
    return kcommon.replay_case(ctx, dict(case, oracle="c06"))
