"""C11 -- a query means what its text says: literals, variables and calls compose.

Explorer P: programs are generated AST-first from the grammar (argument-shape
product for 0-3 arguments x contexts, nested literals, every built-in with
well-typed argument pools given as literal / variable / nested call), printed
in separator-spacing styles, re-parsed by a reference parser (printer sanity),
evaluated by the real parser+interpreter and by a reference evaluator over the AST."""
import itertools
import json
from datetime import datetime, timedelta, timezone

import aw_transform
from aw_core.models import Event
from aw_datastore import Datastore
from aw_datastore.storages import MemoryStorage
from aw_query import query2
from aw_query.exceptions import QueryException, QueryFunctionException, QueryInterpretException, QueryParseException
from aw_query.functions import functions as REGISTRY
from aw_query.functions import q2_function
from mc.core import Agg, Unit
from mc.lattice import chunked
from mc.ref import queryeval as Q

BOUNDS = {
    "quick": {"arg_shapes": "36 (16 base shapes + 5 special strings wrapped in list / nested list followed by an element / dict value / dict key)", "calls": "all calls of the probe functions with 0-3 arguments over the 35 shapes (44 136)", "contexts": 13, "styles": "all 42 separator-spacing styles (incl. tabs and CRLF line breaks) (none/space/newline before/after each of , : = ;) for calls with <=2 arguments, 3 styles x 6 contexts for 3 arguments", "literals": "all list/dict literals of depth <=2 over 3 atoms with <=2 entries", "builtins": "every registered function x argument pools x {literal, variable, nested call} forms"},
    "thorough": {"styles": "all 40 styles also for 3-argument calls", "calls4": "all calls with 4 arguments over the 15 base shapes (50 625) in 3 contexts x 3 styles", "literals": "depth 3 with <=2 entries over 2 atoms (sampled exhaustively by structure)", "rest": "as quick"},
}
RULE = (
    "programs enumerated from the grammar as listed in bounds; each is printed, re-parsed by the reference parser to the same AST, run through aw_query.query2.query and through the reference evaluator; "
    "non-trivial = programs with >= 2 arguments of which a non-last one is a list/dict/call, or a string containing a separator character, or multi-statement programs with rebinding/aliasing, or non-compact spacing"
)
ASSUMPTIONS = [
    "outside the stated grammar and not generated: ';' inside strings, whitespace inside empty brackets or directly after '(' / before a closing bracket, backslashes other than an escaped quote, duplicate dict keys",
    "built-ins are compared with the same aw_transform function applied directly to the reference values of the arguments (argument passing / registry / injection is what is checked; the transforms themselves are C08-C10, C15, C16, C19)",
]
_G = {}
UTC = timezone.utc
T0 = datetime(2020, 5, 5, 12, 0, 0, tzinfo=UTC)
START, END = T0 - timedelta(hours=1), T0 + timedelta(hours=1)


# ---- probe functions through the public decorator ---------------------------------
def register_probes():
    if "args0" in REGISTRY:
        return

    @q2_function()
    def q2_args0():
        return ["args0"]

    @q2_function()
    def q2_args1(a):
        return ["args1", a]

    @q2_function()
    def q2_args2(a, b):
        return ["args2", a, b]

    @q2_function()
    def q2_args3(a, b, c):
        return ["args3", a, b, c]

    @q2_function()
    def q2_id1(a):
        return a

    @q2_function()
    def q2_args4(a, b, c, d):
        return ["args4", a, b, c, d]


PROBE_REF = {
    "args0": lambda: ["args0"],
    "args1": lambda a: ["args1", a],
    "args2": lambda a, b: ["args2", a, b],
    "args3": lambda a, b, c: ["args3", a, b, c],
    "id1": lambda a: a,
    "args4": lambda a, b, c, d: ["args4", a, b, c, d],
    "nop": lambda: 1,
}


def mk_ds():
    ds = Datastore(MemoryStorage, testing=True)
    ds.create_bucket("b1", "currentwindow", "c", "host1", created=T0)
    ds.create_bucket("b2", "afkstatus", "c", "host2", created=T0)
    ds.create_bucket("empty", "x", "c", "host1", created=T0)
    titles = [("Editor", "(2) foo.py - code"), ("Browser", "● news"), ("Editor", "foo.py - code"), ("Game", "Cemu - FPS: 59.2")]
    ds["b1"].insert([Event(timestamp=T0 + timedelta(seconds=10 * i), duration=timedelta(seconds=5 + i % 3), data={"app": a, "title": t, "url": f"http://www.ex{i % 2}.com/p?q={i}"}) for i, (a, t) in enumerate(titles * 2)])
    ds["b2"].insert([Event(timestamp=T0 + timedelta(seconds=25 * i), duration=timedelta(seconds=12), data={"status": "not-afk" if i % 2 == 0 else "afk"}) for i in range(4)])
    return ds


def builtin_ref(ds):
    ns = {"STARTTIME": START.isoformat(), "ENDTIME": END.isoformat()}

    def qb(name):
        if name not in ds.buckets():
            raise QueryFunctionException("no bucket")
        return ds[name].get(starttime=START, endtime=END)

    def find_bucket(f, hostname=None):
        for b in ds.buckets():
            if f in b and (not hostname or ds[b].metadata()["hostname"] == hostname):
                return b
        raise QueryFunctionException("not found")

    R = aw_transform.Rule
    return {
        "query_bucket": qb,
        "query_bucket_eventcount": lambda name: ds[name].get_eventcount(starttime=START, endtime=END),
        "find_bucket": find_bucket,
        "filter_keyvals": lambda e, k, v: aw_transform.filter_keyvals(e, k, v, False),
        "exclude_keyvals": lambda e, k, v: aw_transform.filter_keyvals(e, k, v, True),
        "filter_keyvals_regex": aw_transform.filter_keyvals_regex,
        "filter_period_intersect": aw_transform.filter_period_intersect,
        "period_union": aw_transform.period_union,
        "limit_events": aw_transform.limit_events,
        "merge_events_by_keys": aw_transform.merge_events_by_keys,
        "chunk_events_by_key": aw_transform.chunk_events_by_key,
        "sort_by_timestamp": aw_transform.sort_by_timestamp,
        "sort_by_duration": aw_transform.sort_by_duration,
        "sum_durations": aw_transform.sum_durations,
        "concat": aw_transform.concat,
        "union_no_overlap": aw_transform.union_no_overlap,
        "flood": aw_transform.flood,
        "split_url_events": aw_transform.split_url_events,
        "simplify_window_titles": lambda e, key: aw_transform.simplify_string(e, key=key),
        "categorize": lambda e, c: aw_transform.categorize(e, [(cl, R(r)) for cl, r in c]),
        "tag": lambda e, c: aw_transform.tag(e, [(cl, R(r)) for cl, r in c]),
    }


def outcome_impl(text, ds):
    try:
        v = query2.query("q", text, START, END, ds)
        return ("value", Q.norm(v))
    except QueryParseException as e:
        return ("QueryParseException", str(e)[:80])
    except QueryInterpretException as e:
        return ("QueryInterpretException", str(e)[:80])
    except QueryFunctionException as e:
        return ("QueryFunctionException", str(e)[:80])
    except QueryException as e:
        return ("QueryException", str(e)[:80])
    except Exception as e:
        return ("other:" + type(e).__name__, str(e)[:80])


def outcome_ref(prog, funcs):
    try:
        ns = query2.create_namespace()
        ns.update({"NAME": "q", "STARTTIME": START.isoformat(), "ENDTIME": END.isoformat()})
        return ("value", Q.norm(Q.ref_eval_program(prog, funcs, ns)))
    except QueryFunctionException as e:
        return ("QueryFunctionException", "")
    except Q.RefError as e:
        return ({"interpret": "QueryInterpretException", "parse": "QueryParseException"}[e.kind], "")
    except Exception as e:
        return ("other:" + type(e).__name__, str(e)[:80])


# ---- program spaces -----------------------------------------------------------
def shapes():
    S = lambda t, qq='"': ("str", t, qq)
    return [
        ("int", ("int", 7)),
        ("str", S("s")),
        ("str-comma", S("a,b")),
        ("str-brackets", S("x(y)[z]{w}")),
        ("str-eq", S("k=v", "'")),
        ("str-escq", S('q"r')),
        ("str-unicode", S("é ∑ \U0001F600")),
        ("list0", ("list", ())),
        ("list1", ("list", (("int", 1),))),
        ("list-nested", ("list", (("list", (("int", 1),)), ("int", 2)))),
        ("dict0", ("dict", ())),
        ("dict1", ("dict", (("k", ("int", 1)),))),
        ("dict-list", ("dict", (("k", ("list", (("int", 1),))),))),
        ("call0", ("call", "nop", ())),
        ("call1", ("call", "id1", (("int", 1),))),
        ("var", ("var", "v")),
    ] + wrapped_strings()


def wrapped_strings():
    """strings holding separator / bracket / quote characters INSIDE lists, nested lists, dict
    values and dict keys (a seeded scanner fault only showed for an escaped quote inside a list
    that is nested and followed by another element)"""
    S = lambda t, qq='"': ("str", t, qq)
    out = []
    for nm, s in (("escq", S('q"r')), ("escsq", S("it's", "'")), ("comma", S("a,b")), ("rbr", S("a]b)c}")), ("lbr", S("({["))):
        out.append((f"list[{nm}]", ("list", (s,))))
        out.append((f"list[[{nm}],2]", ("list", (("list", (s,)), ("int", 2)))))
        out.append((f"dict-val-{nm}", ("dict", (("k", s), ("z", ("int", 1))))))
        out.append((f"dict-key-{nm}", ("dict", ((s[1], ("list", (s,))),))))
    return out


CONTEXTS = ("top", "list-elem", "list-mid", "dict-val", "arg-of-call", "arg-of-call-first", "bound-then-returned", "rebound-and-aliased", "return-rebound", "return-then-more", "return-uses-itself", "return-then-error", "same-call-text-twice", "odd-names")


CONTEXTS3 = ("top", "dict-val", "arg-of-call-first", "rebound-and-aliased", "return-rebound", "return-then-error", "same-call-text-twice")


def in_context(call, ctx):
    pre = (("v", ("int", 5)),)
    if ctx == "top":
        return pre + (("RETURN", call),)
    if ctx == "list-elem":
        return pre + (("RETURN", ("list", (call,))),)
    if ctx == "list-mid":
        return pre + (("RETURN", ("list", (("int", 0), call, ("str", "z", '"')))),)
    if ctx == "dict-val":
        return pre + (("RETURN", ("dict", (("a", call), ("b", ("int", 2))))),)
    if ctx == "arg-of-call":
        return pre + (("RETURN", ("call", "id1", (call,))),)
    if ctx == "arg-of-call-first":
        return pre + (("RETURN", ("call", "args3", (call, ("int", 8), ("int", 9)))),)
    if ctx == "bound-then-returned":
        return pre + (("x", call), ("RETURN", ("var", "x")))
    if ctx == "rebound-and-aliased":
        return pre + (("x", ("int", 1)), ("x", call), ("y", ("var", "x")), ("x", ("int", 2)), ("RETURN", ("list", (("var", "x"), ("var", "y")))))
    if ctx == "return-rebound":
        return pre + (("RETURN", ("int", 1)), ("RETURN", call))
    if ctx == "return-then-more":
        return pre + (("RETURN", call), ("x", ("int", 3)), ("y", ("call", "id1", (("var", "x"),))))
    if ctx == "return-uses-itself":
        return pre + (("RETURN", call), ("RETURN", ("call", "args2", (("var", "RETURN"), ("var", "v")))))
    if ctx == "same-call-text-twice":
        # the identical call text is evaluated twice with a variable in it rebound in between
        # (a seeded per-query memo keyed by the call's source text returned the first result again)
        twice = ("call", "args2", (("var", "w"), call))
        return pre + (("w", ("int", 1)), ("p", twice), ("w", ("list", (("int", 2),))), ("q", twice), ("RETURN", ("list", (("var", "p"), ("var", "q")))))
    if ctx == "odd-names":
        # identifiers that are legal but unusual: leading underscore, a lone underscore, digits inside,
        # capitals, a name that begins like RETURN (seeded: the variable scanner required a letter first)
        return pre + (("_t", call), ("_", ("var", "_t")), ("T_2x", ("var", "_")), ("RETURNED", ("var", "T_2x")), ("RETURN", ("list", (("var", "RETURNED"), ("var", "_t"), ("var", "v")))))
    if ctx == "return-then-error":
        return pre + (("RETURN", call), ("x", ("call", "no_such_function", ())))
    raise ValueError(ctx)


def nontrivial_call(call, style_name, ctx):
    args = call[2]
    if style_name != "compact" or ctx in ("rebound-and-aliased", "arg-of-call-first"):
        return True
    if any(a[0] in ("list", "dict", "call") for a in args[:-1]):
        return True
    return any(a[0] == "str" and any(c in a[1] for c in ",()[]{}=\"") for a in args)


def feature(prog_or_call):
    """coarse syntactic feature of the failing construct, used in violation keys"""
    f = set()

    def walk(e, is_nonlast_arg=False):
        k = e[0]
        if k == "call":
            for i, a in enumerate(e[2]):
                if i < len(e[2]) - 1 and a[0] in ("list", "dict", "call"):
                    f.add("bracketed-arg-not-last")
                walk(a)
        elif k == "list":
            for x in e[1]:
                walk(x)
        elif k == "dict":
            for _, x in e[1]:
                walk(x)
        elif k == "str" and any(c in e[1] for c in ",()[]{}=\"'"):
            f.add("string-with-separator-char")

    for _, e in prog_or_call:
        walk(e)
    return "+".join(sorted(f)) or "plain"


def check_program(prog, styles, ds, funcs, u, kind):
    ref = outcome_ref(prog, funcs)
    for sname, st in styles:
        text = Q.pr_program(prog, st)
        try:
            back = Q.ref_parse_program(text)
        except Q.RefParseError as e:
            back = f"reference parser failed: {e}"
        if back != prog:
            u.hist["printer_sanity_failed"] += 1
            u.violation("harness:printer-sanity", f"printed {text!r} re-parsed to {back} expected {prog}", {"text": text})
            continue
        got = outcome_impl(text, ds)
        u.evaluations += 1
        u.transitions += 1
        if got[0] != ref[0] or (got[0] == "value" and got[1] != ref[1]):
            if got[0] == "value" and ref[0] == "value":
                sym = "wrong-value"
            elif ref[0] == "value":
                sym = "wellformed-program-rejected:" + got[0]
            else:
                sym = f"raised-{got[0]}-expected-{ref[0]}"
            u.hist["viol_" + sym] += 1
            u.violation(f"query:{sym}:{feature(prog)}", f"program {text!r}: got {str(got)[:300]} expected {str(ref)[:300]}", {"text": text, "kind": kind}, size=len(text))
        else:
            u.hist["outcome_" + got[0]] += 1


def _unit_args(args):
    fixed_first, nargs, ctxs, style_names = args
    ctx = _G["ctx"]
    ds, funcs = _G["ds"], _G["funcs"]
    styles = [s for s in Q.all_styles() if style_names == "all" or s[0] in style_names]
    u = Unit()
    shp = shapes()
    name = f"args{nargs}"
    rest_n = nargs - (1 if fixed_first is not None else 0)
    for rest in itertools.product(range(len(shp)), repeat=rest_n):
        idx = ((fixed_first,) if fixed_first is not None else ()) + rest
        call = ("call", name, tuple(shp[i][1] for i in idx))
        for c in ctxs:
            prog = in_context(call, c)
            u.states += 1
            if any(nontrivial_call(call, s[0], c) for s in styles):
                u.nontrivial += 1
            check_program(prog, styles, ds, funcs, u, "args")
    u.sample({"kind": "argument-shape product", "example": Q.pr_program(in_context(("call", name, tuple(shp[i][1] for i in (((fixed_first,) if fixed_first is not None else ()) + (8,) * rest_n))), "dict-val"), Q.SPACED)}, cap=1)
    return u.result()


def _unit_args4(args):
    f, g, ctxs, style_names = args
    ds, funcs = _G["ds"], _G["funcs"]
    styles = [s for s in Q.all_styles() if s[0] in style_names]
    u = Unit()
    shp = shapes()
    for rest in itertools.product(range(16), repeat=2):
        call = ("call", "args4", tuple(shp[i][1] for i in (f, g) + rest))
        for c in ctxs:
            u.states += 1
            u.nontrivial += 1
            check_program(in_context(call, c), styles, ds, funcs, u, "args")
    return u.result()


def literals(depth, atoms, width):
    vals = list(atoms)
    for _ in range(depth):
        new = []
        for n in range(0, width + 1):
            for combo in itertools.product(vals, repeat=n):
                new.append(("list", tuple(combo)))
                new.append(("dict", tuple((f"k{i}", v) for i, v in enumerate(combo))))
        vals = list(atoms) + new
    return vals


def _unit_lits(lits):
    ds, funcs = _G["ds"], _G["funcs"]
    u = Unit()
    styles = [s for s in Q.all_styles() if s[0] in ("compact", "spaced", "wide", "newlines")]
    for lit in lits:
        for prog in ((("v", ("int", 5)), ("RETURN", lit)), (("v", ("int", 5)), ("RETURN", ("call", "args2", (lit, lit))))):
            u.states += 1
            u.nontrivial += 1 if lit[0] in ("list", "dict") and lit[1] else 0
            check_program(prog, styles, ds, funcs, u, "literal")
    if lits:
        u.sample({"kind": "literal", "example": Q.pr(lits[len(lits) // 2], Q.SPACED)}, cap=1)
    return u.result()


def builtin_programs():
    """every registered built-in with well-typed argument tuples; arguments as literal / variable / nested call"""
    S = lambda t: ("str", t, '"')
    L = lambda *xs: ("list", tuple(xs))
    D = lambda **kw: ("dict", tuple(kw.items()))
    I = lambda n: ("int", n)
    qb1, qb2, qbe = ("call", "query_bucket", (S("b1"),)), ("call", "query_bucket", (S("b2"),)), ("call", "query_bucket", (S("empty"),))
    ev_pool = [qb1, qb2, qbe, L(), ("call", "flood", (qb1,)), ("call", "query_bucket", (("call", "find_bucket", (S("b1"),)),))]
    rules = L(L(L(S("Work")), D(regex=S("code"))), L(L(S("Work"), S("Ed")), D(regex=S("foo"), ignore_case=("var", "true"))), L(L(S("Fun")), D(regex=S("news"), select_keys=L(S("title")))))
    tagrules = L(L(S("t1"), D(regex=S("code"))), L(S("t2"), D(regex=S("Cemu"))))
    # rules that differ ONLY in select_keys / ignore_case (a seeded Rule cache keyed by the regex text reused the first)
    rules_sel = L(L(L(S("All")), D(regex=S("code"))), L(L(S("App"), S("Only")), D(regex=S("code"), select_keys=L(S("app")))), L(L(S("T"), S("I"), S("C")), D(regex=S("CODE"), ignore_case=("var", "true"))), L(L(S("T"), S("C"), S("S")), D(regex=S("CODE"))))
    tagrules_sel = L(L(S("all"), D(regex=S("o"))), L(S("app-only"), D(regex=S("o"), select_keys=L(S("app")))), L(S("url-only"), D(regex=S("o"), select_keys=L(S("url"), S("missing")))))
    calls = []
    for e in ev_pool:
        for f in ("sort_by_timestamp", "sort_by_duration", "sum_durations", "flood", "split_url_events"):
            calls.append(("call", f, (e,)))
        for k in (S("app"), S("title"), S("missing")):
            calls.append(("call", "chunk_events_by_key", (e, k)))
            # values may be lists or dicts themselves (e.g. $category values): unhashable, compared with ==
            # (seeded: the query wrapper passed set(vals))
            for v in (L(), L(S("Editor")), L(S("Editor"), S("Game")), L(S("(2) foo.py - code")), L(L(S("Editor"))), L(D(k=S("v")), S("Editor"))):
                calls.append(("call", "filter_keyvals", (e, k, v)))
                calls.append(("call", "exclude_keyvals", (e, k, v)))
            calls.append(("call", "filter_keyvals_regex", (e, k, S("o"))))
        calls.append(("call", "simplify_window_titles", (e, S("title"))) if e in (qb1, qbe, L()) else ("call", "nop", ()))
        for n in (0, 1, 3):
            calls.append(("call", "limit_events", (e, I(n))))
        for ks in (L(S("app")), L(S("app"), S("title")), L(S("status")), L()):
            calls.append(("call", "merge_events_by_keys", (e, ks)))
        calls.append(("call", "categorize", (e, rules)))
        calls.append(("call", "categorize", (e, L())))
        calls.append(("call", "tag", (e, tagrules)))
        calls.append(("call", "categorize", (e, rules_sel)))
        calls.append(("call", "tag", (e, tagrules_sel)))
        calls.append(("call", "tag", (("call", "categorize", (e, rules_sel)), tagrules_sel)))
        for e2 in ev_pool[:4]:
            for f in ("filter_period_intersect", "period_union", "concat", "union_no_overlap"):
                calls.append(("call", f, (e, e2)))
    for b in ("b1", "b2", "empty"):
        calls.append(("call", "query_bucket_eventcount", (S(b),)))
    for f in ("b", "b2", "mpt"):
        calls.append(("call", "find_bucket", (S(f),)))
        calls.append(("call", "find_bucket", (S(f), S("host1"))))
    calls.append(("call", "nop", ()))
    progs = []
    for c in calls:
        progs.append((("RETURN", c),))
        # every argument bound to a variable first
        binds = tuple((f"a{i}", a) for i, a in enumerate(c[2]))
        progs.append(binds + (("RETURN", ("call", c[1], tuple(("var", f"a{i}") for i in range(len(c[2]))))),))
        # result passed through a nested call and put in a list with a second use of the first argument
        if c[2]:
            progs.append((("e", c[2][0]), ("r", ("call", c[1], (("var", "e"),) + c[2][1:])), ("RETURN", ("list", (("call", "id1", (("var", "r"),)), ("var", "e"))))))
    return progs


def _unit_builtin(progs):
    ds, funcs = _G["ds"], _G["funcs"]
    u = Unit()
    styles = [s for s in Q.all_styles() if s[0] in ("compact", "spaced", "newlines")]
    for prog in progs:
        u.states += 1
        u.nontrivial += 1
        check_program(prog, styles, ds, funcs, u, "builtin")
    if progs:
        u.sample({"kind": "builtin", "example": Q.pr_program(progs[len(progs) // 2], Q.SPACED)}, cap=1)
    return u.result()


def corpus():
    shp = dict(shapes())
    out = []
    for ctx in CONTEXTS:
        out.append(in_context(("call", "args3", (shp["list-nested"], shp["str-comma"], shp["dict-list"])), ctx))
        out.append(in_context(("call", "args2", (shp["str-escq"], shp["call1"])), ctx))
        out.append(in_context(("call", "args3", (shp["var"], shp["int"], shp["str-eq"])), ctx))
    return out


def _unit_corpus(progs):
    ds, funcs = _G["ds"], _G["funcs"]
    u = Unit()
    styles = Q.all_styles()
    for prog in progs:
        u.states += 1
        u.nontrivial += 1
        check_program(prog, styles, ds, funcs, u, "corpus")
    return u.result()


def _dispatch(x):
    return {"args": _unit_args, "args4": _unit_args4, "lits": _unit_lits, "builtin": _unit_builtin, "corpus": _unit_corpus}[x[0]](x[1])


def _cfg(ctx):
    _G["ctx"] = ctx
    register_probes()
    _G["ds"] = mk_ds()
    funcs = dict(PROBE_REF)
    funcs.update(builtin_ref(_G["ds"]))
    _G["funcs"] = funcs


def run(ctx):
    _cfg(ctx)
    missing = sorted(set(REGISTRY) - set(_G["funcs"]))
    ctx.selfcheck(not missing, f"built-ins without a reference: {missing}")
    units = []
    sty = "all"
    nshape = len(shapes())
    units.append(("args", (None, 0, CONTEXTS, sty)))
    units.append(("args", (None, 1, CONTEXTS, sty)))
    for f in range(nshape):
        units.append(("args", (f, 2, CONTEXTS, sty)))
        units.append(("args", (f, 3, CONTEXTS if ctx.thorough else CONTEXTS3, sty if ctx.thorough else ("compact", "spaced", "newlines", "tabs"))))
    if ctx.thorough:
        for f in range(16):
            for g in range(16):
                units.append(("args4", (f, g, ("top", "dict-val", "rebound-and-aliased"), ("compact", "spaced", "newlines"))))
    lits = literals(2, [("int", 1), ("str", "s", '"'), ("var", "v")], 2)
    if ctx.thorough:
        lits += literals(3, [("int", 1), ("str", "a,b", "'")], 1) + [x for x in literals(3, [("int", 1)], 2)]
    for ch in chunked(lits, ctx.workers * 2):
        units.append(("lits", ch))
    bp = builtin_programs()
    for ch in chunked(bp, ctx.workers * 2):
        units.append(("builtin", ch))
    for ch in chunked(corpus(), ctx.workers):
        units.append(("corpus", ch))
    agg = Agg()
    for r in ctx.pmap(_dispatch, units):
        agg.add(r)
    agg.extra["space"] = {"literals": len(lits), "builtin_programs": len(bp), "corpus": len(corpus()), "styles": len(Q.all_styles())}
    ctx.selfcheck(agg.hist.get("printer_sanity_failed", 0) == 0, "printer and reference parser disagree")
    ctx.selfcheck(agg.hist.get("outcome_value", 0) > 0, "no program produced a value")
    return agg


def run_case(ctx, case):
    _cfg(ctx)
    text = case["text"]
    prog = Q.ref_parse_program(text)
    ref = outcome_ref(prog, _G["funcs"])
    got = outcome_impl(text, _G["ds"])
    ok = got[0] == ref[0] and (got[0] != "value" or got[1] == ref[1])
    return {"text": text, "observed": got, "expected": ref, "violations": [] if ok else [["query-result-differs", f"{got} vs {ref}"]]}
