"""C04 -- operations addressed to one bucket never change any other bucket.

Explorer S over two operated buckets A, B (+ a passive third, created first):
BFS to fixpoint over building histories (C02's alphabet with own ids on A and B,
<=K live events each); from EVERY reachable state every operation is applied to A
with EVERY id in the database (A's own, B's, the passive bucket's, never-existed)
plus update_bucket(A, each field) and delete_bucket(A).  Oracle: listing and
metadata of every other bucket identical before/after; the op may succeed or raise."""
import itertools
import json

from mc import engine
from mc.core import Agg, Unit
from mc.drivers import stores as S
from mc.lattice import Emb
from mc.ref import bucketlist as BL
from aw_core.models import Event

E3 = ((0, 1, 0), (1, 0, 0), (1, 1, 1))
E4 = ((0, 1, 0), (1, 0, 0), (1, 1, 1), (0, 2, 1))
PASSIVE = ((0, 1), (1, 0), (0, 2), (1, 1))
BOUNDS = {
    "quick": {"alphabet": "E3: (0,1,X) (1,0,X) (1,1,Y)", "K_per_bucket": {"A": 2, "B": 1}, "buckets": ["passive(4 events)", "A", "B"], "bucket_ids": "wnd / 'wnd ' / Wnd (distinct, equal up to case and surrounding whitespace)"},
    "thorough": {"alphabet": "E4: (0,1,X) (1,0,X) (1,1,Y) (0,2,Y)", "K_per_bucket": 2, "buckets": ["passive(4 events)", "A", "B"]},
}
RULE = (
    "BFS to fixpoint over building histories on buckets A and B (insert, bulk pair, upsert, replace, replace_last, delete with own ids; <=K live events each; instants coincide across buckets); "
    "in every reachable state every probe op is applied to A: insert, single insert carrying an id, bulk upsert, mixed bulk, replace, delete with each id present anywhere in the database or never-existed, replace / replace_last whose replacement object carries such an id, replace_last, update_bucket per field, delete_bucket; "
    "plus 8 REJECTED operations (unserialisable event data in insert/bulk/upsert/replace/replace_last, update without fields, update/delete of an absent bucket) issued while the last write of the history is still unobserved; "
    "non-trivial = probes carrying an id that belongs to another bucket, or probes whose instants coincide with an event of another bucket"
)
ASSUMPTIONS = [
    "an operation on A may succeed or raise; only the frame (all other buckets' listing + metadata) is compared",
    "memory ids are per bucket, so another bucket's id is often also an A id there (legitimately affecting A only)",
]
_G = {}
# the three ids are legal, distinct, and equal up to case / surrounding whitespace (seeded: an id
# "normalised" on one path only made two buckets alias)
A_, B_, P_ = "wnd", "wnd ", "Wnd"
BUCKETS = (A_, B_)
NEVER = BL.NEVER_ID


def _E():
    lab = _G["lab"]
    return tuple((s, d, lab[l]) for s, d, l in _G["E"])


def setup(backend, wdir):
    emb = _G["emb"]
    ds = S.fresh(backend, wdir)
    S.mk_bucket(ds, P_)
    ds[P_].insert([emb.ev(s, d, _G["lab"][2]) for s, d in PASSIVE])
    S.mk_bucket(ds, A_)
    S.mk_bucket(ds, B_)
    return ds


def replay(backend, wdir, hist, skip_last_read=False):
    """skip_last_read: leave the last op's write unobserved (on the lazily committing store it is
    then still buffered), for probes whose failure must not take other buckets' recent writes along"""
    ds = setup(backend, wdir)
    ms = {b: BL.BModel() for b in BUCKETS}
    for n, (bid, op) in enumerate(hist):
        BL.perform(ds, bid, ms[bid], op, _G["emb"])
        if skip_last_read and n == len(hist) - 1:
            break
        ms[bid].live = {t[0]: t[1:] for t in S.dump_bucket(ds, bid)}
    return ds, ms


class _Unserialisable:
    pass


FAULT_PROBES = ("ins_bad", "bulk_bad", "ups_bad", "rep_bad", "repl_bad", "update_nothing", "delete_absent_bucket", "update_absent_bucket")


def do_fault_probe(ds, ms, name):
    """operations on A (or on an absent bucket) that are rejected: they may raise, and must not touch other buckets"""
    emb = _G["emb"]
    a = ds[A_]
    bad = emb.ev(1, 1, {"bad": _Unserialisable()})
    ids = ms[A_].ids()
    try:
        if name == "ins_bad":
            a.insert(bad)
        elif name == "bulk_bad":
            a.insert([emb.ev(0, 1, _G["lab"][0]), bad])
        elif name == "ups_bad":
            bad.id = ids[0] if ids else NEVER
            a.insert([bad])
        elif name == "rep_bad":
            a.replace(ids[0] if ids else NEVER, bad)
        elif name == "repl_bad":
            a.replace_last(bad)
        elif name == "update_nothing":
            ds.update_bucket(A_)
        elif name == "delete_absent_bucket":
            ds.delete_bucket("no-such-bucket")
        elif name == "update_absent_bucket":
            ds.update_bucket("no-such-bucket", type_id="x")
        return "ok"
    except Exception as e:
        return "raised-" + type(e).__name__


def frame(ds, exclude):
    out = {}
    for bid in sorted(ds.buckets()):
        if bid != exclude:
            out[bid] = (json.dumps(ds[bid].metadata(), sort_keys=True, default=str), sorted(S.dump_bucket(ds, bid)))
    return out


def build_ops(model, E, K):
    ops = [o for o in BL.enabled_ops(model, E, K) if o[0] != "delx"]
    return ops


def probe_ops(ds, ms, E):
    """probes on A that the building alphabet does not already contain"""
    ids = []
    for i in ms[A_].ids():
        ids.append(("own", i))
    for i in ms[B_].ids():
        ids.append(("B", i))
    for t in sorted(S.dump_bucket(ds, P_))[:2]:
        ids.append(("passive", t[0]))
    ids.append(("never", NEVER))
    ops = []
    for cls, i in ids:
        for e in E:
            ops.append(("ups", cls, i, e))
            ops.append(("rep", cls, i, e))
            ops.append(("ins1id", cls, i, e))
        ops.append(("mix", cls, i, E[0], E[1]))
        ops.append(("del", cls, i))
        if cls != "own" and ms[A_].ids():
            # the ADDRESSED id is A's own, but the replacement object CARRIES the other id (an event that
            # was read from the other bucket): seeded peewee.replace checked one id and wrote the other
            ops.append(("rep_carry", cls, i, E[0], ms[A_].ids()[0]))
            ops.append(("repl_carry", cls, i, E[1 % len(E)]))
    for e in E:
        ops.append(("repl", "none", None, e))
        ops.append(("ins", "none", None, e))
    ops.append(("bulk", "none", None, E[0], E[1]))
    for f in ("type", "client", "hostname", "name", "data"):
        ops.append(("update_bucket", "none", None, f))
    ops.append(("delete_bucket", "none", None))
    return ops


def do_probe(ds, op):
    emb = _G["emb"]
    a = ds[A_]
    k = op[0]
    try:
        if k == "ups":
            a.insert([emb.ev(*op[3], id=op[2])])
        elif k == "rep":
            a.replace(op[2], emb.ev(*op[3]))
        elif k == "ins1id":
            a.insert(emb.ev(*op[3], id=op[2]))
        elif k == "mix":
            a.insert([emb.ev(*op[3], id=op[2]), emb.ev(*op[4])])
        elif k == "del":
            a.delete(op[2])
        elif k == "rep_carry":
            a.replace(op[4], emb.ev(*op[3], id=op[2]))
        elif k == "repl_carry":
            a.replace_last(emb.ev(*op[3], id=op[2]))
        elif k == "repl":
            a.replace_last(emb.ev(*op[3]))
        elif k == "ins":
            a.insert(emb.ev(*op[3]))
        elif k == "bulk":
            a.insert([emb.ev(*op[3]), emb.ev(*op[4])])
        elif k == "update_bucket":
            f = op[3]
            kw = {"type_id" if f == "type" else f: ({"new": [1, {"x": "y"}]} if f == "data" else "new-" + f)}
            ds.update_bucket(A_, **kw)
        elif k == "delete_bucket":
            ds.delete_bucket(A_)
        return "ok"
    except Exception as e:
        return "raised-" + type(e).__name__


def _expand(hist):
    c = _G["cfg"]
    backend, K = c["backend"], c["K"]
    ctx = _G["ctx"]
    E = _E()
    u = Unit()
    wdir = ctx.wdir()
    ds, ms = replay(backend, wdir, hist)
    self_canon = S.canon_full(ds)
    succ = []
    # building ops on A and B (frame-checked too)
    blds = [(bid, op) for bid in BUCKETS for op in build_ops(ms[bid], E, K if bid == A_ else c["KB"])]
    probes = probe_ops(ds, ms, E)
    other_instants = {b: {(v[0], v[0] + v[1]) for v in ms[b].live.values()} for b in BUCKETS}
    for bid, op in blds:
        ds, mm = replay(backend, wdir, hist)
        f0 = frame(ds, bid)
        x = BL.perform(ds, bid, mm[bid], op, _G["emb"])
        f1 = frame(ds, bid)
        u.transitions += 1
        u.evaluations += 1
        u.traces += 1
        u.hist["build_" + op[0]] += 1
        if f0 != f1:
            chg = [b for b in f0 if f0[b] != f1.get(b)]
            case = {"backend": backend, "history": [[b, list(o)] for b, o in hist], "target_bucket": bid, "build_op": list(op), "alphabet": c["Ename"]}
            u.violation(f"{backend}:{op[0]}:own-id:other-bucket-changed", f"{backend} history {list(hist)}: {op} on {bid} changed bucket(s) {chg}: {[(f0[b], f1.get(b)) for b in chg][:1]}", case, size=len(hist) * 100 + len(json.dumps(case)))
        elif not x["exc"]:
            succ.append((S.canon_full(ds), tuple(hist) + ((bid, op),)))
    ds = None
    for op in probes:
        # a probe that left the whole implementation state untouched (rejected,
        # or a no-op) does not need a fresh replay for the next probe
        if ds is None or S.canon_full(ds) != self_canon or raw0 != (S.raw_rows(ds), S.raw_buckets(ds)):
            ds, mm = replay(backend, wdir, hist)
            raw0 = (S.raw_rows(ds), S.raw_buckets(ds))
            f0 = frame(ds, A_)
        else:
            u.hist["probe_store_reused"] += 1
        res = do_probe(ds, op)
        f1 = frame(ds, A_)
        u.transitions += 1
        u.evaluations += 1
        u.traces += 1
        u.hist[f"probe_{op[0]}_{op[1]}_{'ok' if res == 'ok' else 'raised'}"] += 1
        nt = op[1] in ("B", "passive")
        if not nt and len(op) > 3 and isinstance(op[3], tuple):
            ee = _G["emb"].ev(*op[3])
            iv = (S.us_of(ee.timestamp), S.us_of(ee.timestamp) + S.dus_of(ee.duration))
            nt = any(iv[1] == o[1] for o in other_instants[B_])
        if nt:
            u.nontrivial += 1
        if f0 != f1:
            chg = [b for b in f0 if f0[b] != f1.get(b)]
            case = {"backend": backend, "history": [[b, list(o)] for b, o in hist], "probe": [list(x) if isinstance(x, tuple) else x for x in op], "alphabet": c["Ename"]}
            u.violation(
                f"{backend}:{op[0]}:id-of-{op[1]}:other-bucket-changed",
                f"{backend} history {list(hist)}: probe {op} on A ({res}) changed bucket(s) {chg}: before {[f0[b][1] for b in chg][:1]} after {[f1.get(b, (None, None))[1] for b in chg][:1]}",
                case,
                size=len(hist) * 100 + len(json.dumps(case)),
            )
    # the same probes (one per kind and id class) through a NEW Datastore object over the same file -- an
    # orderly restart: nothing is registered in it yet (seeded: the first lookup registered handles for
    # all listed buckets under the looked-up id, so later operations on B landed in A)
    if backend != "memory":
        firsts = {}
        for op in probes:
            firsts.setdefault((op[0], op[1]), op)
        for op in firsts.values():
            ds, mm = replay(backend, wdir, hist)
            f0 = frame(ds, A_)
            ds = S.reopen(ds, flush=True)
            res = do_probe(ds, op)
            f1 = frame(ds, A_)
            u.transitions += 1
            u.evaluations += 1
            u.traces += 1
            u.hist["probe_after_restart"] += 1
            if f0 != f1:
                chg = [b for b in f0 if f0[b] != f1.get(b)]
                case = {"backend": backend, "history": [[b, list(o)] for b, o in hist], "probe": [list(x) if isinstance(x, tuple) else x for x in op], "alphabet": c["Ename"], "restart": True}
                u.violation(
                    f"{backend}:restart+{op[0]}:id-of-{op[1]}:other-bucket-changed",
                    f"{backend} history {list(hist)}, restart, probe {op} on A ({res}) changed bucket(s) {chg}: before {[f0[b][1] for b in chg][:1]} after {[f1.get(b, (None, None))[1] for b in chg][:1]}",
                    case,
                    size=len(hist) * 100 + len(json.dumps(case)) + 50,
                )
        ds = None
    # ONE Event object handed to B and then to A (a caller re-using its event): whatever A does with the
    # object, B's stored event stays as B's operation left it (seeded: memory replace stored the caller's
    # own object, and a later replace on A with another id renumbered it inside B)
    if ms[A_].ids() and ms[B_].ids():
        for kb, ka in itertools.product(("replace", "replace_last", "insert"), ("replace", "replace_last", "insert", "upsert")):
            ds, mm = replay(backend, wdir, hist)
            ev = _G["emb"].ev(*E[0])
            ida, idb = mm[A_].ids()[0], mm[B_].ids()[0]
            try:
                if kb == "replace":
                    ds[B_].replace(idb, ev)
                elif kb == "replace_last":
                    ds[B_].replace_last(ev)
                else:
                    ds[B_].insert(ev)
            except Exception:
                continue
            f0 = frame(ds, A_)
            try:
                if ka == "replace":
                    ds[A_].replace(ida, ev)
                elif ka == "replace_last":
                    ds[A_].replace_last(ev)
                elif ka == "insert":
                    ds[A_].insert(ev)
                else:
                    ev.id = ida
                    ds[A_].insert([ev])
                res = "ok"
            except Exception as e:
                res = "raised-" + type(e).__name__
            f1 = frame(ds, A_)
            u.transitions += 1
            u.evaluations += 1
            u.traces += 1
            u.nontrivial += 1
            u.hist["probe_shared_object"] += 1
            if f0 != f1:
                chg = [b for b in f0 if f0[b] != f1.get(b)]
                case = {"backend": backend, "history": [[b, list(o)] for b, o in hist], "shared_object": [kb, ka], "alphabet": c["Ename"]}
                u.violation(f"{backend}:shared-object:{kb}-then-{ka}:other-bucket-changed", f"{backend} history {list(hist)}: one Event object given to B.{kb} and then to A.{ka} ({res}) changed bucket(s) {chg}: before {[f0[b][1] for b in chg][:1]} after {[f1.get(b, (None, None))[1] for b in chg][:1]}", case, size=len(hist) * 100 + len(json.dumps(case)) + 60)
        ds = None
    # rejected operations, issued while the last write of the history is still unobserved (buffered
    # on the lazily committing store): the frame expected is the one of the fully observed twin
    if hist:
        dsf, msf = replay(backend, wdir, hist)
        f_want = frame(dsf, A_)
        for name in FAULT_PROBES:
            ds2, mm2 = replay(backend, wdir, hist, skip_last_read=True)
            res = do_fault_probe(ds2, msf, name)
            f1 = frame(ds2, A_)
            u.transitions += 1
            u.evaluations += 1
            u.traces += 1
            u.nontrivial += 1
            u.hist[f"fault_{name}_{'ok' if res == 'ok' else 'raised'}"] += 1
            if f1 != f_want:
                chg = [b for b in f_want if f_want[b] != f1.get(b)]
                case = {"backend": backend, "history": [[b, list(o)] for b, o in hist], "fault_probe": name, "alphabet": c["Ename"]}
                u.violation(f"{backend}:{name}:rejected-op:other-bucket-changed", f"{backend} history {list(hist)} (last write unobserved): rejected {name} on A ({res}) changed bucket(s) {chg}: expected {[f_want[b][1] for b in chg][:1]} got {[f1.get(b, (None, None))[1] for b in chg][:1]}", case, size=len(hist) * 100 + len(name))
    if len(hist) == 1:
        u.sample({"backend": backend, "history": [[b, list(o)] for b, o in hist], "probes_on_A": len(probes), "building_ops": len(blds)}, cap=1)
    r = u.result()
    r.update({"self": self_canon, "succ": succ, "path": tuple(hist)})
    return r


def _cfg(ctx):
    _G["ctx"] = ctx
    _G["lab"] = (ctx.labels[0], ctx.labels[1], ctx.labels[2])
    _G["emb"] = Emb(ctx.base, 1_000_000)


def run(ctx):
    _cfg(ctx)
    total = Agg()
    Ename = "E4" if ctx.thorough else "E3"
    _G["E"] = E4 if ctx.thorough else E3
    per = {}
    for backend in S.BACKENDS:
        _G["cfg"] = {"backend": backend, "K": 2, "KB": 2 if ctx.thorough else 1, "Ename": Ename}
        agg, seen = engine.bfs(ctx, _expand, [()], label=backend, max_states=60000, cap_s=5400 if ctx.thorough else 1800)
        per[backend] = {"states": agg.states, "transitions": agg.transitions, "max_depth": agg.max_depth}
        from mc.props.c02 import _merge

        _merge(total, agg)
    total.extra["per_backend"] = per
    ctx.selfcheck(total.nontrivial > 0, "no probe with a foreign id or coinciding instants")
    for need in ("probe_rep_B_", "probe_ups_passive_", "probe_del_B_", "probe_delete_bucket_none_"):
        ctx.selfcheck(any(k.startswith(need) for k in total.hist), f"vacuous: no {need} probe")
    return total


def run_case(ctx, case):
    _cfg(ctx)
    _G["E"] = E4 if case.get("alphabet") == "E4" else E3
    backend = case["backend"]
    hist = tuple((b, BL.tup(o)) for b, o in case["history"])
    ds, mm = replay(backend, ctx.wdir(), hist)
    if "fault_probe" in case:
        f_want = frame(ds, A_)
        ds2, _ = replay(backend, ctx.wdir(), hist, skip_last_read=True)
        res = do_fault_probe(ds2, mm, case["fault_probe"])
        f1 = frame(ds2, A_)
        chg = [b for b in f_want if f_want[b] != f1.get(b)]
        return {"fault_probe": case["fault_probe"], "result": res, "expected_other_buckets": f_want, "observed": f1, "violations": [["other-bucket-changed", b] for b in chg]}
    if "shared_object" in case:
        kb, ka = case["shared_object"]
        ev = _G["emb"].ev(*_E()[0])
        ida, idb = mm[A_].ids()[0], mm[B_].ids()[0]
        {"replace": lambda: ds[B_].replace(idb, ev), "replace_last": lambda: ds[B_].replace_last(ev), "insert": lambda: ds[B_].insert(ev)}[kb]()
        f0 = frame(ds, A_)
        try:
            if ka == "upsert":
                ev.id = ida
                ds[A_].insert([ev])
            else:
                {"replace": lambda: ds[A_].replace(ida, ev), "replace_last": lambda: ds[A_].replace_last(ev), "insert": lambda: ds[A_].insert(ev)}[ka]()
            res = "ok"
        except Exception as e:
            res = "raised-" + type(e).__name__
        f1 = frame(ds, A_)
        chg = [b for b in f0 if f0[b] != f1.get(b)]
        return {"shared_object": [kb, ka], "result": res, "other_buckets_before": f0, "other_buckets_after": f1, "violations": [["other-bucket-changed", b] for b in chg]}
    if "probe" in case:
        op = BL.tup(case["probe"])
        f0 = frame(ds, A_)
        if case.get("restart"):
            ds = S.reopen(ds, flush=True)
        res = do_probe(ds, op)
        f1 = frame(ds, A_)
    else:
        bid = case["target_bucket"]
        op = BL.tup(case["build_op"])
        f0 = frame(ds, bid)
        x = BL.perform(ds, bid, mm[bid], op, _G["emb"])
        res = x["exc"] or "ok"
        f1 = frame(ds, bid)
    chg = [b for b in f0 if f0[b] != f1.get(b)]
    return {"op": op, "result": res, "other_buckets_before": f0, "other_buckets_after": f1, "violations": [["other-bucket-changed", b] for b in chg]}
