"""C16 -- grouping, chunking, sorting and filtering conserve events and time.

Explorer L: every list of <= n events whose data ranges over all (presence, value)
combinations of keys {a,b} with values {x, y, ["x"]} (equal values under
different keys, list-valued keys, missing keys, duplicates) x every ordered key
list; event i has duration 2^i units so a summed duration identifies its group
exactly.  chunk/sort/limit/filter on analogous full products."""
import collections
import itertools
import json
from copy import deepcopy
from datetime import timedelta

from aw_transform import chunk_events_by_key, filter_keyvals, limit_events, merge_events_by_keys, sort_by_duration, sort_by_timestamp
from mc.core import Agg, Unit
from mc.drivers import stores as S
from mc.lattice import Emb, chunked

ABSENT = "<absent>"
VALS = (ABSENT, "x", "y", ["x"])
VALS_NULL = (ABSENT, "x", ["x"], None, 0)  # JSON null / falsy values are values, not absence
# distinct JSON values that PRINT alike (str / repr / json text): 1 vs "1", null vs "None"/"null", a list vs the text spelling it,
# true vs 1 vs 1.0 are deliberately absent (Python's own == identifies them; the statement speaks of values)
VALS_PRINT = (ABSENT, 1, "1", None, "None", "null", ["x"], "['x']", '["x"]')
VALS_HASH = (ABSENT, -1, -2, [-1], [-2])  # distinct values whose CPython hashes coincide (hash(-1) == hash(-2))
KEYLISTS = [("a",), ("b",), ("c",), ("a", "b"), ("b", "a"), ("a", "c"), ("c", "a"), ("b", "c"), ("c", "b"), ("a", "b", "c")]
BOUNDS = {
    "quick": {"merge_dict_order": "whenever >=2 keys are given, every second event builds its data dict in the opposite key order", "merge": "lists of <=4 events over 16 data shapes (a,b in {absent,x,y,[x]}) and lists of <=3 over 25 shapes (a,b in {absent,x,[x],null,0}), durations 2^i and a zero-duration variant, 10 key lists", "chunk": "key-bearing sequences of <=4 events, values {x,y,[x]}, gaps 0/1 unit within a 4-unit span", "sort": "lists of <=4 over 3 timestamps x 3 durations", "limit": "counts 0..n+1", "filter": "lists of <=3 over 5 value shapes x 6 vals lists"},
    "thorough": {"merge": "as quick", "chunk": "<=5 events", "sort": "<=5", "filter": "<=4"},
}
RULE = (
    "full products as listed in bounds; non-trivial (merge) = lists in which two events carry an equal value under different keys, or a key is missing in some event, or a value is a list, or two events are identical"
)
ASSUMPTIONS = [
    "the empty key list is not generated ('the given keys' presupposes some)",
    "output order of merge_events_by_keys and the merged event's timestamp are not prescribed",
    "chunk_events_by_key is driven with sequences in which every single gap (<= 2 s) is below the default pulsetime (5 s) so that every reading of its pulsetime rule agrees (at the 0.5 s scale the whole sequence is shorter than it); maximal runs are then required",
    "limit_events is checked for counts >= 0",
]
_G = {}


def mkdata(a, b, swapped=False):
    """swapped: key b is inserted into the dict before key a (a seeded grouping key followed each
    event's own dict order, so equal events with differently ordered dicts fell into two groups)"""
    d = {}
    if swapped and b != ABSENT:
        d["b"] = deepcopy(b)
    if a != ABSENT:
        d["a"] = deepcopy(a)
    if b != ABSENT and "b" not in d:
        d["b"] = deepcopy(b)
    return d


def cj(x):
    return json.dumps(x, sort_keys=True)


def check_merge(emb, shapes, keys, zero=False):
    evs = [emb.ev(i, 0 if zero and i == 0 else 2 ** i, mkdata(*sh)) for i, sh in enumerate(shapes)]
    if len(shapes) >= 2 and len(keys) >= 2:
        # odd positions build their dict in the other key order
        evs = [emb.ev(i, 0 if zero and i == 0 else 2 ** i, mkdata(*sh[:2], swapped=bool(i % 2))) for i, sh in enumerate(shapes)]
    # ids are unique per bucket only: events of a concatenation of two buckets share ids (0, 0, 1, 1 ...);
    # every event counts all the same (seeded: events repeating an id were skipped as duplicates)
    for i, e in enumerate(evs):
        e.id = i // 2 if len(evs) % 2 == 0 else None
    snap = [S.ev_tuple(e) for e in evs]
    try:
        out = merge_events_by_keys(evs, list(keys))
        again = merge_events_by_keys(evs, list(keys))  # same input objects a second time: same answer
    except Exception as e:
        return [("merge-raised", f"{type(e).__name__}: {e}")]
    probs = []
    if sorted((cj(e.data), S.dus_of(e.duration)) for e in out) != sorted((cj(e.data), S.dus_of(e.duration)) for e in again):
        probs.append(("merge-second-call-differs", "calling it again with the same objects gave a different result"))
    if [S.ev_tuple(e) for e in evs] != snap:
        probs.append(("merge-input-modified", "input events changed"))
    groups = collections.OrderedDict()
    for e in evs:
        g = tuple((k in e.data, cj(e.data[k]) if k in e.data else None) for k in keys)
        groups.setdefault(g, []).append(e)
    want = collections.Counter()
    for g, members in groups.items():
        data = {k: members[0].data[k] for k in keys if k in members[0].data}
        want[(cj(data), sum((S.dus_of(m.duration) for m in members)))] += 1
    got = collections.Counter((cj(e.data), S.dus_of(e.duration)) for e in out)
    if got != want:
        tot_in = sum(S.dus_of(e.duration) for e in evs)
        tot_out = sum(S.dus_of(e.duration) for e in out)
        if len(out) < len(groups):
            probs.append(("merge-distinct-groups-collapsed", f"{len(groups)} distinct (presence,value) combinations but {len(out)} outputs: got {sorted(got)} expected {sorted(want)}"))
        elif tot_in != tot_out:
            probs.append(("merge-total-duration-not-conserved", f"in {tot_in} out {tot_out}: got {sorted(got)} expected {sorted(want)}"))
        else:
            probs.append(("merge-groups-wrong", f"got {sorted(got)} expected {sorted(want)}"))
    return probs


def check_chunk(emb, seq, scale=0.5):
    """seq: tuple of (gap_before, dur, value); scale: lattice step in units (seconds)"""
    evs = []
    t = 0
    for i, (gap, dur, val) in enumerate(seq):
        t += gap
        evs.append(emb.ev(t * scale, dur * scale, {"k": deepcopy(val), "i": i}))
        t += dur
    snap = [S.ev_tuple(e) for e in evs]
    try:
        out = chunk_events_by_key(evs, "k")
    except Exception as e:
        return [("chunk-raised", f"{type(e).__name__}: {e}")]
    probs = []
    if [S.ev_tuple(e) for e in evs] != snap:
        probs.append(("chunk-input-modified", "input events changed"))
    flat = []
    for c in out:
        subs = c.data.get("subevents")
        if not isinstance(subs, list) or not subs:
            probs.append(("chunk-without-subevents", f"{c}"))
            continue
        vals = {cj(s.data.get("k")) for s in subs}
        if vals != {cj(c.data.get("k"))}:
            probs.append(("chunk-mixes-values", f"chunk value {c.data.get('k')} subevents {[s.data.get('k') for s in subs]}"))
        if S.dus_of(c.duration) != sum(S.dus_of(s.duration) for s in subs):
            probs.append(("chunk-duration-not-sum", f"chunk {S.dus_of(c.duration)} subevents {[S.dus_of(s.duration) for s in subs]}"))
        flat.extend(S.ev_tuple(s) for s in subs)
    if flat != snap:
        probs.append(("chunk-subevents-do-not-concatenate-to-input", f"subevents {[(f[1], f[3]) for f in flat]} input {[(f[1], f[3]) for f in snap]}"))
    for c0, c1 in zip(out, out[1:]):
        if cj(c0.data.get("k")) == cj(c1.data.get("k")):
            probs.append(("chunk-runs-not-maximal", f"two consecutive chunks share value {c0.data.get('k')}"))
    return probs


def check_sort(emb, kinds):
    # ids: a mix of None (events built by a transform) and ints (events read from a store), also among ties
    evs = [emb.ev(s, d, {"i": i}, id=(None if i % 2 == 0 else 10 - i)) for i, (s, d) in enumerate(kinds)]
    snap = [S.ev_tuple(e) for e in evs]
    probs = []
    for fn, keyf, rev in ((sort_by_timestamp, lambda t: t[1], False), (sort_by_duration, lambda t: t[2], True)):
        try:
            out = [S.ev_tuple(e) for e in fn(evs)]
        except Exception as e:
            probs.append((f"{fn.__name__}-raised", f"{type(e).__name__}: {e}"))
            continue
        if sorted(out, key=lambda t: t[3]) != sorted(snap, key=lambda t: t[3]):
            probs.append((f"{fn.__name__}-not-a-permutation", f"{out} vs {snap}"))
        ks = [keyf(t) for t in out]
        if any((a < b) if rev else (a > b) for a, b in zip(ks, ks[1:])):
            probs.append((f"{fn.__name__}-not-ordered", f"keys {ks}"))
        if [S.ev_tuple(e) for e in evs] != snap:
            probs.append((f"{fn.__name__}-input-modified", "input list changed"))
    for count in range(0, len(evs) + 2):
        out = [S.ev_tuple(e) for e in limit_events(evs, count)]
        if out != snap[:count]:
            probs.append(("limit_events-not-a-prefix", f"count {count}: {out}"))
        if [S.ev_tuple(e) for e in evs] != snap:
            probs.append(("limit_events-input-modified", ""))
    return probs


FVALS = (ABSENT, "x", "y", ["x"], 1, None)
FLISTS = ([], ["x"], ["x", "y"], [["x"]], [1, "y"], ["z"], [None])


def check_filter(emb, shapes, vals):
    evs = [emb.ev(i, 1, ({} if v == ABSENT else {"k": deepcopy(v)}) | {"i": i}) for i, v in enumerate(shapes)]
    snap = [S.ev_tuple(e) for e in evs]
    probs = []
    try:
        inc = [S.ev_tuple(e) for e in filter_keyvals(evs, "k", deepcopy(vals))]
        exc = [S.ev_tuple(e) for e in filter_keyvals(evs, "k", deepcopy(vals), exclude=True)]
    except Exception as e:
        return [("filter-raised", f"{type(e).__name__}: {e}")]
    want_inc = [t for t, v in zip(snap, shapes) if v != ABSENT and v in vals]
    want_exc = [t for t, v in zip(snap, shapes) if not (v != ABSENT and v in vals)]
    if inc != want_inc:
        probs.append(("filter_keyvals-wrong", f"shapes {shapes} vals {vals}: got {[t[3] for t in inc]} expected {[t[3] for t in want_inc]}"))
    if exc != want_exc:
        probs.append(("exclude_keyvals-wrong", f"shapes {shapes} vals {vals}: got {[t[3] for t in exc]} expected {[t[3] for t in want_exc]}"))
    if sorted(inc + exc, key=lambda t: t[1]) != snap:
        probs.append(("filter-not-complementary", f"{len(inc)} + {len(exc)} != {len(snap)}"))
    if [S.ev_tuple(e) for e in evs] != snap:
        probs.append(("filter-input-modified", ""))
    return probs


def _nt_merge(shapes):
    if len(set(map(cj, shapes))) < len(shapes):
        return True
    for a, b in shapes:
        if a == ABSENT or b == ABSENT or a is None or b is None or isinstance(a, list) or isinstance(b, list):
            return True
    avals = {cj(a) for a, _ in shapes if a != ABSENT}
    bvals = {cj(b) for _, b in shapes if b != ABSENT}
    return bool(avals & bvals)


HUGE = ((100000, 1), (100000, 3), (0, 7), (36500, 999999), (1, 0))  # (days, microseconds): sums beyond what float seconds carry exactly


def check_huge(emb, durs):
    """durations add up EXACTLY (timedelta arithmetic), also when they are far beyond what float seconds can
    carry to the microsecond (seeded: chunk duration recomputed through the float-based sum_durations)"""
    from datetime import timedelta

    probs = []
    evs = [emb.ev(i, 0, {"k": "v", "i": i}) for i in range(len(durs))]
    for e, (days, us) in zip(evs, durs):
        e.duration = timedelta(days=days, microseconds=us)
    total = sum((e.duration for e in evs), timedelta())
    try:
        ch = chunk_events_by_key(evs, "k")
        if len(ch) != 1 or ch[0].duration != total:
            probs.append(("chunk-duration-not-sum", f"durations {durs} (days, us): chunks {[str(c.duration) for c in ch]}, exact sum {total}"))
        mg = merge_events_by_keys(evs, ["k"])
        if len(mg) != 1 or mg[0].duration != total:
            probs.append(("merge-total-duration-not-conserved", f"durations {durs} (days, us): merged {[str(c.duration) for c in mg]}, exact sum {total}"))
    except Exception as e:
        probs.append(("huge-raised", f"{type(e).__name__}: {e}"))
    return probs


def _unit(args):
    kind, items = args
    ctx = _G["ctx"]
    emb = Emb(ctx.base, 1_000_000)
    u = Unit()
    for it in items:
        u.states += 1
        if kind == "huge":
            u.evaluations += 2
            u.transitions += 2
            u.nontrivial += 1
            for sym, det in check_huge(emb, it)[:1]:
                u.violation(f"{'chunk_events_by_key' if sym.startswith('chunk') else 'merge_events_by_keys'}:{sym}", det, {"fn": "huge", "durs": [list(x) for x in it]}, size=len(it))
            continue
        if kind == "merge":
            if _nt_merge(it):
                u.nontrivial += 1
            for keys in KEYLISTS:
                for zero in (False, True):
                    u.evaluations += 1
                    u.transitions += 1
                    for sym, det in check_merge(emb, it, keys, zero)[:1]:
                        case = {"fn": "merge", "shapes": [list(x) for x in it], "keys": list(keys), "zero": zero}
                        u.violation(f"merge_events_by_keys:{sym}", f"events data {[mkdata(*s[:2], swapped=bool(i % 2) and len(keys) >= 2 and len(it) >= 2) for i, s in enumerate(it)]} keys {list(keys)}: {det}", case, size=len(it) * 1000 + len(keys) * 10 + len(json.dumps(case)))
        elif kind == "chunk":
            u.evaluations += 1
            u.transitions += 1
            u.nontrivial += 1 if len(it) >= 2 else 0
            # scale 0.5 s: the whole sequence spans less than the default pulsetime; scale 2 s: every single
            # gap (<= 2 s) is still far below it but the SEQUENCE is longer (seeded: gaps were measured from
            # the running chunk's start + summed durations, so small gaps added up to a split)
            for scale in (0.5, 2.0):
                if scale == 0.5 and sum(g + d for g, d, _ in it) * 0.5 >= 4.5:
                    continue
                for sym, det in check_chunk(emb, it, scale)[:1]:
                    case = {"fn": "chunk", "seq": [list(x) for x in it], "scale": scale}
                    u.violation(f"chunk_events_by_key:{sym}", f"sequence (gap,dur,value) {list(it)} at {scale} s per step: {det}", case, size=len(it) * 1000 + len(json.dumps(case)))
        elif kind == "sort":
            u.evaluations += 2 + len(it) + 2
            u.transitions += 2 + len(it) + 2
            u.nontrivial += 1 if len(set(it)) < len(it) or len({s for s, _ in it}) < len(it) else 0
            for sym, det in check_sort(emb, it)[:1]:
                case = {"fn": "sort", "kinds": [list(x) for x in it]}
                u.violation(f"sort:{sym}", f"events (ts,dur) {list(it)}: {det}", case, size=len(it) * 1000)
        else:
            for vals in FLISTS:
                u.evaluations += 2
                u.transitions += 2
                for sym, det in check_filter(emb, it, vals)[:1]:
                    case = {"fn": "filter", "shapes": list(it), "vals": vals}
                    u.violation(f"filter:{sym}", det, case, size=len(it) * 1000 + len(json.dumps(case)))
            u.nontrivial += 1 if any(v == ABSENT or v is None or isinstance(v, list) for v in it) else 0
    if items:
        u.sample({"fn": kind, "case": json.loads(json.dumps(items[len(items) // 2]))}, cap=1)
    return u.result()


def _space(ctx):
    n = 4
    shapes = [(a, b) for a in VALS for b in VALS]
    merge = [t for k in range(0, n + 1) for t in itertools.product(shapes, repeat=k)]
    shapes_null = [(a, b) for a in VALS_NULL for b in VALS_NULL]
    seen = set(map(cj, merge))
    merge += [t for k in range(1, 4) for t in itertools.product(shapes_null, repeat=k) if cj(t) not in seen]
    shapes_hash = [(a, b) for a in VALS_HASH for b in VALS_HASH]
    merge += [t for k in range(2, 4) for t in itertools.product(shapes_hash, repeat=k)]
    shapes_print = [(a, b) for a in VALS_PRINT for b in (ABSENT, "x")] + [(ABSENT, a) for a in VALS_PRINT[1:]]
    merge += [t for k in range(2, 4 if ctx.thorough else 3) for t in itertools.product(shapes_print, repeat=k)]
    cn = 5 if ctx.thorough else 4
    cel = [(g, d, v) for g in (0, 1) for d in (0, 1) for v in ("x", "y", ["x"])]
    chunk = [t for k in range(0, cn + 1) for t in itertools.product(cel, repeat=k)]
    # keep the total span below the default pulsetime (5 s): half-unit steps -> max span (1+1)*0.5*5 = 5 -> restrict
    # (the 0.5 s scale is skipped for sequences spanning 4.5 s or more, see the unit)
    sn = 5 if ctx.thorough else 4
    skinds = [(s, d) for s in (0, 1, 2) for d in (0, 1, 2)]
    sort = [t for k in range(0, sn + 1) for t in itertools.product(skinds, repeat=k)]
    fn = 4 if ctx.thorough else 3
    filt = [t for k in range(0, fn + 1) for t in itertools.product(FVALS, repeat=k)]
    huge = [t for k in (1, 2, 3) for t in itertools.product(HUGE, repeat=k)]
    return {"merge": merge, "chunk": chunk, "sort": sort, "filter": filt, "huge": huge}


def run(ctx):
    _G["ctx"] = ctx
    sp = _space(ctx)
    units = []
    for kind, items in sp.items():
        for ch in chunked(items, ctx.workers * (4 if kind in ("merge", "sort") else 1)):
            units.append((kind, ch))
    agg = Agg()
    for r in ctx.pmap(_unit, units):
        agg.add(r)
    agg.extra["space"] = {k: len(v) for k, v in sp.items()}
    ctx.selfcheck(agg.nontrivial > 0, "no non-trivial list")
    return agg


def run_case(ctx, case):
    if case.get("fn") == "huge":
        _G["ctx"] = ctx
        probs = check_huge(Emb(ctx.base, 1_000_000), [tuple(x) for x in case["durs"]])
        return {"violations": [list(p) for p in probs]}
    return _run_case(ctx, case)


def _run_case(ctx, case):
    _G["ctx"] = ctx
    emb = Emb(ctx.base, 1_000_000)
    fn = case["fn"]
    if fn == "merge":
        probs = check_merge(emb, [tuple(x) for x in case["shapes"]], tuple(case["keys"]), case.get("zero", False))
    elif fn == "chunk":
        probs = check_chunk(emb, [tuple(x) for x in case["seq"]], case.get("scale", 0.5))
    elif fn == "sort":
        probs = check_sort(emb, [tuple(x) for x in case["kinds"]])
    else:
        probs = check_filter(emb, case["shapes"], case["vals"])
    return {"case": case, "violations": [list(p) for p in probs]}
