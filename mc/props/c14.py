"""C14 -- migrating a legacy (peewee v2) database to the SQLite store loses nothing.

Explorer L over configurations: every subset of 4 bucket ids (ASCII, unicode,
watcher-style, SQL-special characters) x events per bucket {0,1,3,101} x bucket data {none, flat, nested}
x name {absent, given} x profile {testing, normal} x other-profile legacy file
present or not.  The legacy store is written by the real PeeweeStorage at its
default path in a private data dir, the default SqliteStorage is then created
beside it (which triggers the migration) and compared bucket by bucket."""
import hashlib
import itertools
import json
import os
import shutil
from datetime import datetime, timedelta, timezone

import iso8601
from aw_core.models import Event
from aw_datastore import Datastore
from aw_datastore.storages import PeeweeStorage, SqliteStorage
from mc.core import Agg, Unit
from mc.drivers import stores as S
from mc.lattice import chunked

BIDS = ("b1", "bü-ö", "aw-watcher-window_host", "o'brien \"q\" %_;--")  # the last one: SQL-special characters
NEV = (0, 1, 3, 101)
BDATA = (None, {"k": "v"}, {"cfg": {"inner": [1, None, {"x": "ü"}]}, "n": 1.5})
BOUNDS = {
    "quick": {"bucket_id_subsets": 16, "events_per_bucket": list(NEV), "bucket_data": 3, "name": ["absent", "given"], "profiles": ["testing", "normal"], "outside_the_product": "2-4 buckets filled alternately event by event (1, 3, 12 events each); single buckets of 999/1000/1001/2001 overlapping, pairwise tied events; two buckets of 999..2001 plain events", "other_profile_legacy_file": "present and absent for every case (when present, a decoy `<name>.v2.backup.db` with other content lies beside the real legacy file as well)"},
    "thorough": {"as": "quick", "plus": "250 and 1001 events per bucket"},
}
RULE = (
    "full product of the configuration dimensions; each case writes a real legacy database, starts the default SQLite store beside it and compares ids, metadata and the multiset of (instant, duration, data) per bucket, the legacy file's bytes, a second start, and the database as a crash at the moment the constructor returns leaves it (files copied before any read; the migration is never run twice, so what is not durable then is lost); "
    "non-trivial = cases with at least one event, or bucket data, or a given name, or a unicode id"
)
ASSUMPTIONS = [
    "legacy databases are produced by the working tree's own PeeweeStorage (the only writer of that format available offline)",
    "`created` is compared as an instant; `name` is compared when the legacy bucket had one",
]
_G = {}
UTC = timezone.utc
T0 = datetime(2018, 5, 5, 5, 5, 5, 123000, tzinfo=UTC)
EDATA = [{"app": "x", "title": "héllo"}, {"n": 1, "nested": {"l": [1, 2]}}, {}, {"q": "it's \"q\""}, {"title": "cut in the middle of an emoji \ud83d"}]


def mk_events(n, salt):
    evs = _mk_events(n, salt)
    if n >= 3:
        # two identical legacy events (same instant, duration, data): both must arrive
        evs[1] = Event(timestamp=evs[0].timestamp, duration=evs[0].duration, data=dict(evs[0].data))
    return evs


def mk_overlapping(n, salt):
    """long buckets whose events overlap their neighbours and share timestamps pairwise (seeded: the
    migration read the legacy bucket in pages bounded by an end time, and the clipping legacy reader
    shortened whatever straddled a page boundary)"""
    return [Event(timestamp=T0 + timedelta(seconds=7 * (i // 2) + salt), duration=timedelta(seconds=20, microseconds=(i * 1000003 + salt) % 5_000_000), data=dict(EDATA[(i + salt) % len(EDATA)], i=i)) for i in range(n)]


def _mk_events(n, salt):
    return [Event(timestamp=T0 + timedelta(seconds=7 * i + salt, milliseconds=i % 997), duration=timedelta(microseconds=(i * 1000003 + salt) % 5_000_000), data=dict(EDATA[(i + salt) % len(EDATA)], i=i)) for i in range(n)]


def contents(ds):
    out = {}
    for bid, md in ds.buckets().items():
        c = md["created"]
        m = {"id": md["id"], "type": md["type"], "client": md["client"], "hostname": md["hostname"], "created": S.us_of(iso8601.parse_date(c) if isinstance(c, str) else c), "name": md.get("name"), "data": md.get("data") or {}}
        evs = sorted((S.us_of(e.timestamp), S.dus_of(e.duration), S.canon_data(e.data)) for e in ds[bid].get(-1))
        out[bid] = (m, evs)
    return out


def sha(path):
    with open(path, "rb") as f:
        return hashlib.sha256(f.read()).hexdigest()


def bucket_kw(j):
    """metadata of the j-th legacy bucket: from the second bucket on, one of hostname / client / type is the
    EMPTY string -- a legal value that has to arrive as it is (seeded: `value or "unknown"`)"""
    kw = dict(type=f"type-{j}", client=f"client-{j}", hostname=f"host-{j}", created=datetime(2017, 1 + j, 2, 3, 4, 5, 678000, tzinfo=timezone(timedelta(hours=2 * j))))
    if j >= 1:
        kw[("hostname", "client", "type")[(j - 1) % 3]] = ""
    return kw


def run_config(root, cfg):
    """cfg: dict(bids, nev, bdata, name, testing, other) -> list of problems"""
    from aw_datastore.storages import peewee as pw

    shutil.rmtree(root, ignore_errors=True)
    os.makedirs(root)
    os.environ["XDG_DATA_HOME"] = root
    S.close_all()
    testing = cfg["testing"]
    probs = []

    def write_legacy(tst, bids, salt):
        ds = Datastore(PeeweeStorage, testing=tst)
        if cfg.get("interleaved") and len(bids) > 1:
            # all buckets first, then their events alternately, one at a time (rows of one bucket are not
            # contiguous in the legacy table; seeded: itertools.groupby over rows in insertion order)
            per = {}
            for j, bid in enumerate(bids):
                kw = bucket_kw(j)
                if cfg["name"]:
                    kw["name"] = f"name of {bid}"
                if cfg["bdata"] is not None:
                    kw["data"] = BDATA[cfg["bdata"]]
                ds.create_bucket(bid, **kw)
                per[bid] = mk_events(cfg["nev"], salt + j)
            for i in range(cfg["nev"]):
                for bid in bids:
                    ds[bid].insert(per[bid][i])
            want = contents(ds)
            path = pw._db.database
            pw._db.close()
            return want, path
        for j, bid in enumerate(bids):
            kw = bucket_kw(j)
            if cfg["name"]:
                kw["name"] = f"name of {bid}"
            if cfg["bdata"] is not None:
                kw["data"] = BDATA[cfg["bdata"]]
            ds.create_bucket(bid, **kw)
            evs = (mk_overlapping if cfg.get("overlap") else mk_events)(cfg["nev"], salt + j)
            if evs:
                ds[bid].insert(evs if len(evs) > 1 else evs[0])
        want = contents(ds)
        path = pw._db.database
        pw._db.close()
        return want, path

    if cfg["other"]:
        write_legacy(not testing, ("other-profile-bucket",), 50)
        # ... and a sibling file in the data dir whose name passes the loose 'name.v2.*' filter and sorts
        # before the real legacy file: an old backup with other content -- it is not the legacy database
        _, p0 = write_legacy(testing, ("backup-only-bucket",), 70)
        os.replace(p0, p0[: -len(".db")] + ".backup.db")
    want, legacy_path = write_legacy(testing, cfg["bids"], 0)
    h0 = sha(legacy_path)
    try:
        new = Datastore(SqliteStorage, testing=testing)
        # what a process started after a crash at this very moment would find (files copied before any
        # read through the store, whose reads flush): a migration that is only in the open transaction
        # is lost for good -- the new database file exists, so the migration never runs again
        from mc.drivers import crash as K

        npath = [r[2] for r in new.storage_strategy.conn.execute("PRAGMA database_list")][0]
        img = os.path.join(root, "crash-image.db")
        K.write_image(K.file_bytes(npath), img)
        got = contents(new)
        crashed = Datastore(SqliteStorage, testing=testing, filepath=img)
        try:
            got_img = contents(crashed)
        finally:
            crashed.storage_strategy.conn.close()
        for sym, det in compare(want, got_img):
            probs.append(("not-durable-at-first-start:" + sym, "in the database as a crash right after the first start leaves it: " + det))
    except Exception as e:
        return [("migration-raised", f"{type(e).__name__}: {e}")]
    finally:
        try:
            pw._db.close()
        except Exception:
            pass
    probs += compare(want, got)
    if sha(legacy_path) != h0:
        probs.append(("legacy-file-altered", f"{legacy_path} bytes changed"))
    journal = [f for f in os.listdir(os.path.dirname(legacy_path)) if f.startswith(os.path.basename(legacy_path) + "-")]
    try:
        new.storage_strategy.conn.close()
        again = Datastore(SqliteStorage, testing=testing)
        got2 = contents(again)
        again.storage_strategy.conn.close()
        if got2 != got:
            probs.append(("second-start-changed-contents", f"bucket sizes first {[(b, len(v[1])) for b, v in got.items()]} second {[(b, len(v[1])) for b, v in got2.items()]}"))
    except Exception as e:
        probs.append(("second-start-raised", f"{type(e).__name__}: {e}"))
    finally:
        try:
            pw._db.close()
        except Exception:
            pass
    return probs


def compare(want, got):
    probs = []
    if set(want) != set(got):
        if set(want) - set(got):
            probs.append(("bucket-missing", f"legacy buckets {sorted(want)} migrated {sorted(got)}"))
        if set(got) - set(want):
            probs.append(("unexpected-bucket", f"legacy buckets {sorted(want)} migrated {sorted(got)}"))
    for b in set(want) & set(got):
        (wm, we), (gm, ge) = want[b], got[b]
        for k in ("id", "type", "client", "hostname", "created", "data"):
            if wm[k] != gm[k]:
                probs.append((f"bucket-{k}-wrong", f"{b}.{k}: legacy {wm[k]!r} migrated {gm[k]!r}"))
        if wm["name"] is not None and wm["name"] != gm["name"]:
            probs.append(("bucket-name-wrong", f"{b}.name: legacy {wm['name']!r} migrated {gm['name']!r}"))
        if we != ge:
            import collections

            cw, cg = collections.Counter(we), collections.Counter(ge)
            lost, extra = cw - cg, cg - cw
            if lost and not extra:
                probs.append(("events-dropped", f"{b}: {sum(lost.values())} of {len(we)} events missing after migration, e.g. {next(iter(lost))}"))
            elif extra and not lost:
                probs.append(("events-duplicated", f"{b}: {sum(extra.values())} extra events after migration"))
            else:
                probs.append(("events-altered", f"{b}: {sum(lost.values())} legacy events not found and {sum(extra.values())} unexpected, e.g. legacy {next(iter(lost))} vs {next(iter(extra))}"))
    return probs


def _unit(cfgs):
    ctx = _G["ctx"]
    u = Unit()
    root = os.path.join(ctx.wdir(), "xdg14")
    keep = os.environ.get("XDG_DATA_HOME")
    for cfg in cfgs:
        u.states += 1
        u.evaluations += 1
        u.transitions += 2
        u.traces += 1
        if cfg["nev"] or cfg["bdata"] is not None or cfg["name"] or any(not b.isascii() for b in cfg["bids"]):
            u.nontrivial += 1
        try:
            probs = run_config(root, cfg)
        except Exception as e:
            probs = [("harness-or-legacy-writer-raised", f"{type(e).__name__}: {e}")]
        for sym, det in probs[:3]:
            u.violation(f"migration:{sym}", f"legacy {cfg}: {det}", dict(cfg, bids=list(cfg["bids"])), size=len(cfg["bids"]) * 1000 + cfg["nev"] * 5 + (cfg["bdata"] or 0) + cfg["name"] * 2 + cfg["other"])
    if keep:
        os.environ["XDG_DATA_HOME"] = keep
    if cfgs:
        u.sample(dict(cfgs[len(cfgs) // 2], bids=list(cfgs[len(cfgs) // 2]["bids"])), cap=1)
    S.close_all()
    return u.result()


def configs(ctx):
    out = []
    n = 0
    nevs = NEV + ((250, 1001) if ctx.thorough else ())
    for k in range(0, 5):
        for bids in itertools.combinations(BIDS, k):
            for nev, bd, name, testing in itertools.product(nevs, (None, 1, 2), (False, True), (True, False)):
                n += 1
                for other in (False, True):
                    out.append({"bids": bids, "nev": nev, "bdata": bd, "name": name, "testing": testing, "other": other})
    # outside the product: legacy tables whose buckets were filled alternately, and long buckets of overlapping events
    for bids in (BIDS[:2], BIDS[1:4], BIDS):
        for nev, testing in itertools.product((1, 3, 12), (True, False)):
            out.append({"bids": bids, "nev": nev, "bdata": 1, "name": True, "testing": testing, "other": False, "interleaved": True})
    for nev in (999, 1000, 1001, 2001) + ((5003,) if ctx.thorough else ()):
        for testing in (True, False):
            out.append({"bids": BIDS[:1], "nev": nev, "bdata": None, "name": False, "testing": testing, "other": False, "overlap": True})
            out.append({"bids": BIDS[2:4], "nev": nev, "bdata": None, "name": False, "testing": testing, "other": False})
    return out


def run(ctx):
    _G["ctx"] = ctx
    cfgs = configs(ctx)
    agg = Agg()
    for r in ctx.pmap(_unit, chunked(cfgs, ctx.workers * 3)):
        agg.add(r)
    agg.extra["configurations"] = len(cfgs)
    ctx.selfcheck(agg.nontrivial > 0, "no non-trivial configuration")
    return agg


def run_case(ctx, case):
    _G["ctx"] = ctx
    cfg = dict(case, bids=tuple(case["bids"]))
    probs = run_config(os.path.join(ctx.wdir(), "xdg14"), cfg)
    return {"config": case, "violations": [list(p) for p in probs]}
