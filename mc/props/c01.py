"""C01 -- stored events come back exactly as inserted, and the store owns its copy.

Fidelity (explorer L, numeric grid): anchors 1970..2100 incl. float binade edges
of seconds and microseconds x all 1000 millisecond values at the edges x
durations at microsecond granularity up to 30 days x tz offsets x a JSON data
catalogue, single and bulk insertion, read back by listing and by id on each
real backend, compared in exact integer microseconds.
Ownership (explorer S, tiny): every history write-op x mutation x read-op."""
import itertools
import json
from copy import deepcopy
from datetime import datetime, timedelta, timezone

from aw_core.models import Event
from mc.core import Agg, Unit
from mc.drivers import stores as S
from mc.lattice import chunked

UTC = timezone.utc
OFFS = (-14 * 60, -330, 0, 345, 14 * 60)
BOUNDS = {
    "quick": {"grid": "G1: ~180 anchors x ms {0,1,499,500,999} x 24 durations (rotating offsets); G2: 3 us-binade-edge anchors (2^49,2^50,2^51 us) x all 1000 ms x 12 durations; G3: ~110 durations x 6 anchors x ms {0,999}; G4: data catalogue (34) x 2 anchors; each inserted singly AND in bulk; all three backends", "ownership": "5 write ops x 5 mutations x 3 read ops x 3 mutated objects + metadata/buckets/create/update aliasing histories", "other_write_paths": "~770 grid events (all durations x 3 anchors, data catalogue with a > 1 day duration) written through replace-by-id, bulk upsert and replace_last", "acknowledged_then_rejected": "1-3 unobserved single inserts followed by each of 6 rejected operations (same / other bucket), then listing and lookup", "id_uniqueness": "all histories of 4 (thorough 5) ops over insert / bulk insert / bulk insert of the same object twice / replace_last / delete oldest|newest|middle; exact ids and contents and lookup == listing after every op"},
    "thorough": {"grid": "G2 additionally at one anchor per decade 1970..2100, epoch 0 and 2100-12-31T23:59:59, x all 1000 ms x 24 durations; rest as quick"},
}
RULE = (
    "every grid event is inserted (id None) into a bucket of each backend (batches of <=200, once one-by-one and once as one bulk call) and read back through get(-1) and get_by_id; instants, durations (exact us) and JSON data are compared; "
    "non-trivial = events whose instant or end lies within 2 s of a float binade edge of seconds/microseconds, or whose duration is not a whole millisecond, or whose data is not a flat ASCII dict; ownership histories are all non-trivial"
)
ASSUMPTIONS = [
    "exhaustive over the stated grid (float-behaviour change points x all millisecond values), not over all 10^15 instants; a loss confined to mantissa patterns outside the grid would escape",
    "timestamps reach the store already floored to ms by Event (C13); data is compared as json.loads(json.dumps(x))",
    "NaN/Infinity are not valid JSON and not generated",
]
_G = {}
CATALOGUE = [
    {},
    {"a": 1},
    {"title": "héllo wörld", "app": "x"},
    {"s": "dq\" sq' bs\\ nl\n tab\t slash/"},
    {"nested": {"l": [1, 2.5, None, True, {"d": []}], "e": {}}},
    {"deep": {"a": {"b": {"c": [[], [[]], {"z": None}]}}}},
    {"f": 0.1},
    {"f": 1e-7},
    {"f": 1e300},
    {"f": -0.0},
    {"i": 2 ** 53 + 1},
    {"i": -(2 ** 63)},
    {"emoji": "\U0001F600"},
    {"comb": "é"},
    {"ctrl": "\x01\x1f\x7f"},
    {"nul": "a\x00b"},
    {"": "empty key"},
    {"k.with.dots": 1, "k with space": 2, "ключ": "значение"},
    {"bool": False, "none": None},
    {"list": []},
    {"list": [[], {}]},
    {"big": "x" * 5000},
    {"quote'": "it's", 'dq"': 'say "hi"'},
    {"url": "http://x/?a=1&b=2#f", "$category": ["A", "B"]},
    {"sql": "'); DROP TABLE events;--"},
    {"pct": "100%", "under_score": "_", "like": "%_%"},
    {"num_str": "1e5", "int_str": "007"},
    {"f": 1.7976931348623157e308},
    {"f": 5e-324},
    {"f": 123456789.123456789},
    {"surrogate_pair": "\U00010000"},
    {"rtl": "‮abc"},
    {"nl_key\n": 1},
    {"a": {"a": {"a": {"a": {"a": 1}}}}},
    {"lone_surrogate": "half an emoji \ud83d"},
]
DUR_SMALL = (0, 1, 2, 499, 500, 501, 999, 1000, 1001, 10 ** 6 - 1, 10 ** 6, 10 ** 6 + 1)
DUR_MORE = DUR_SMALL + (123456, 86400 * 10 ** 6, 86400 * 10 ** 6 + 1, 30 * 86400 * 10 ** 6 - 1, 30 * 86400 * 10 ** 6, 2 ** 31, 2 ** 31 + 1, 2 ** 40 + 1, 2 ** 41 + 1, 3600 * 10 ** 6 + 7, 59_999_999, 7)
DUR_ALL = tuple(sorted(set(DUR_MORE + tuple(2 ** k for k in range(2, 42)) + tuple(2 ** k + 1 for k in range(2, 42)))))


def anchors_general():
    a = [0, 1]
    for k in range(20, 32):
        a += [2 ** k - 1, 2 ** k, 2 ** k + 1]
    a.append(4133980799)
    for y in range(1970, 2101):
        a.append(int(datetime(y, 1 + y % 12, 1 + y % 28, 12, 0, 0, tzinfo=UTC).timestamp()))
    return sorted(set(a))


def edge_anchors(thorough):
    e = [(2 ** k) // 10 ** 6 for k in (49, 50, 51)]
    e = sorted({x + d for x in e for d in (-1, 0, 1)} | {2 ** 30, 2 ** 31, 2 ** 31 - 1})
    if thorough:
        e = sorted(set(e) | {int(datetime(y, 6, 15, 23, 59, 59, tzinfo=UTC).timestamp()) for y in range(1970, 2101, 10)} | {0, 4133980799})
    return e


def grid(thorough):
    """list of (epoch_s, ms, sub_us, offset_min, dur_us, data_index or None)"""
    g = []
    n = 0
    for s in anchors_general():
        for ms in (0, 1, 499, 500, 999):
            for du in DUR_MORE:
                n += 1
                g.append((s, ms, (0, 1, 500, 999)[n % 4], OFFS[n % 5], du, None))
    for s in edge_anchors(thorough):
        for ms in range(1000):
            for du in (DUR_MORE if thorough else DUR_SMALL):
                n += 1
                g.append((s, ms, 0, OFFS[n % 5], du, None))
    for s in (0, 2 ** 31, (2 ** 51) // 10 ** 6, 4133980799 - 30 * 86400, 1577880000, 951782400):
        for ms in (0, 999):
            for du in DUR_ALL:
                g.append((s, ms, 0, 0, du, None))
    for s in (1577880000, (2 ** 51) // 10 ** 6):
        for i in range(len(CATALOGUE)):
            g.append((s, 123, 0, 0, 1500, i))
    return g


def mk_event(spec, n):
    s, ms, sub, off, du, di = spec
    ts = datetime.fromtimestamp(s, UTC).replace(microsecond=ms * 1000 + sub).astimezone(timezone(timedelta(minutes=off)))
    data = {"n": n}
    if di is not None:
        data.update(deepcopy(CATALOGUE[di]))
    return Event(timestamp=ts, duration=timedelta(microseconds=du), data=data)


def expect(spec, n):
    s, ms, sub, off, du, di = spec
    data = {"n": n}
    if di is not None:
        data.update(CATALOGUE[di])
    return (s * 10 ** 6 + ms * 1000, du, S.canon_data(json.loads(json.dumps(data))))


def near_edge(us):
    for k in (49, 50, 51, 52):
        if abs(us - 2 ** k) < 2 * 10 ** 6:
            return True
    for k in range(20, 32):
        if abs(us - (2 ** k) * 10 ** 6) < 2 * 10 ** 6:
            return True
    return False


def _unit_fid(args):
    backend, batches = args
    ctx = _G["ctx"]
    u = Unit()
    ds = S.fresh(backend, ctx.wdir())
    bn = 0
    for base_n, specs in batches:
        for mode in ("single", "bulk"):
            bn += 1
            bid = f"b{bn}"
            S.mk_bucket(ds, bid)
            b = ds[bid]
            evs = [mk_event(sp, base_n + i) for i, sp in enumerate(specs)]
            try:
                if mode == "single":
                    for e in evs:
                        b.insert(e)
                else:
                    b.insert(evs)
                got = {}
                ids = []
                for e in b.get(-1):
                    t = S.ev_tuple(e)
                    ids.append(t[0])
                    got.setdefault(json.loads(t[3]).get("n"), []).append(t)
            except Exception as ex:
                u.violation(f"{backend}:{mode}:raised-{type(ex).__name__}", f"{backend} {mode} insert/read of batch starting at {base_n}: {type(ex).__name__}: {ex}", {"kind": "fid", "backend": backend, "mode": mode, "specs": [list(specs[0])]})
                continue
            if len(set(ids)) != len(ids) or any(i is None for i in ids):
                u.violation(f"{backend}:{mode}:ids-not-unique", f"ids {ids[:10]}...", {"kind": "fid", "backend": backend, "mode": mode, "specs": [list(x) for x in specs[:3]]})
            for i, sp in enumerate(specs):
                n = base_n + i
                want = expect(sp, n)
                u.evaluations += 1
                u.transitions += 1
                if mode == "single":
                    u.states += 1
                    if near_edge(want[0]) or near_edge(want[0] + want[1]) or want[1] % 1000 or sp[5] is not None:
                        u.nontrivial += 1
                rows = got.get(n, [])
                sym = None
                if len(rows) != 1:
                    sym, det = "event-lost-or-duplicated", f"{len(rows)} events read back for inserted event {sp}"
                else:
                    t = rows[0]
                    if t[1] != want[0]:
                        sym, det = "instant-wrong", f"given {want[0]} us stored {t[1]} us (diff {t[1] - want[0]})"
                    elif t[2] != want[1]:
                        sym, det = "duration-wrong", f"instant {want[0]} us: duration given {want[1]} us stored {t[2]} us (diff {t[2] - want[1]})"
                    elif t[3] != want[2]:
                        sym, det = "data-wrong", f"given {want[2][:200]} stored {t[3][:200]}"
                    else:
                        e2 = b.get_by_id(t[0])
                        if e2 is None or S.ev_tuple(e2) != t:
                            sym, det = "lookup-differs-from-listing", f"get_by_id({t[0]}) = {None if e2 is None else S.ev_tuple(e2)} listing {t}"
                if sym:
                    u.violation(f"{backend}:{sym}", f"{backend} {mode} event {sp}: {det}", {"kind": "fid", "backend": backend, "mode": mode, "specs": [list(sp)]}, size=sp[4] // 1000 + sp[1] + (0 if mode == "single" else 1))
            ds.delete_bucket(bid)
    if batches:
        sp = batches[0][1][0]
        u.sample({"kind": "fidelity", "backend": backend, "event": {"epoch_s": sp[0], "ms": sp[1], "sub_us": sp[2], "offset_min": sp[3], "duration_us": sp[4]}, "batch": len(batches[0][1])}, cap=1)
    S.close_all()
    return u.result()


# ---------------------------------------------------------------------------
# ownership
NESTED = {"top": "v", "k": {"n": [1], "el": [], "ed": {}}, "e": []}  # incl. EMPTY nested containers (seeded: a "cheap" copier returned falsy values as they were)
MUTATIONS = ("top", "nested", "timestamp", "duration", "id", "fill-empty")
WRITES = ("insert", "bulk", "upsert", "replace", "replace_last")
READS = ("get_all", "get_1", "get_by_id")
T0 = datetime(2020, 2, 2, 2, 2, 2, tzinfo=UTC)


def mutate(e, m):
    if m == "top":
        e.data["top"] = "MUTATED"
        e.data["added"] = 1
    elif m == "nested":
        e.data["k"]["n"].append(99)
        e.data["k"]["new"] = "MUTATED"
    elif m == "fill-empty":
        e.data["k"]["el"].append("filled")
        e.data["k"]["ed"]["filled"] = 1
        e.data["e"].append({"filled": True})
    elif m == "timestamp":
        e.timestamp = e.timestamp + timedelta(hours=1)
    elif m == "duration":
        e.duration = e.duration + timedelta(seconds=7)
    elif m == "id":
        e.id = 424242


def read(b, r, ids):
    if r == "get_all":
        return sorted(S.ev_tuple(e) for e in b.get(-1))
    if r == "get_1":
        return [S.ev_tuple(e) for e in b.get(1)]
    return [None if (e := b.get_by_id(i)) is None else S.ev_tuple(e) for i in ids]


def own_case(backend, wdir, w, m, r, victim):
    """victim: 'passed' (object given to the store) | 'got_list' | 'got_limit1' | 'got_window' | 'got_id' (object handed out by a read) | 'returned' (object handed back by the write)"""
    ds = S.fresh(backend, wdir)
    S.mk_bucket(ds, "o")
    b = ds["o"]
    seed = b.insert(Event(timestamp=T0, duration=1, data=deepcopy(NESTED)))
    sid = seed.id if seed is not None and seed.id is not None else b.get(-1)[0].id
    e = Event(timestamp=T0 + timedelta(seconds=5), duration=2, data=deepcopy(NESTED))
    passed = [e]
    ret = None
    if w == "insert":
        ret = b.insert(e)
    elif w == "bulk":
        e2 = Event(timestamp=T0 + timedelta(seconds=9), duration=3, data=deepcopy(NESTED))
        passed.append(e2)
        ret = b.insert([e, e2])
    elif w == "upsert":
        e.id = sid
        ret = b.insert([e])
    elif w == "replace":
        ret = b.replace(sid, e)
    elif w == "replace_last":
        ret = b.replace_last(e)
    ids = sorted(t[0] for t in S.dump_bucket(ds, "o"))
    first = {rr: read(b, rr, ids) for rr in READS}
    if victim == "passed":
        for x in passed:
            mutate(x, m)
    elif victim == "got_list":
        for x in b.get(-1):
            mutate(x, m)
    elif victim == "got_limit1":
        # a positive limit below the bucket size is another code path (seeded: a fast path for "latest N")
        for x in b.get(1):
            mutate(x, m)
    elif victim == "got_window":
        for x in b.get(-1, T0 - timedelta(hours=1), T0 + timedelta(hours=1)):
            mutate(x, m)
    elif victim == "returned":
        # whatever the write call handed back (the memory store returned the very object it had just stored)
        for x in ret if isinstance(ret, (list, tuple)) else [ret]:
            if isinstance(x, Event):
                mutate(x, m)
    else:
        for i in ids:
            x = b.get_by_id(i)
            if x is not None:
                mutate(x, m)
    second = read(b, r, ids)
    if second != first[r]:
        return f"after {w} and mutating {m} of the {victim} object, {r} changed: {first[r]} -> {second}"
    return None


def meta_cases(backend, wdir):
    """-> list of (name, problem or None)"""
    out = []

    def snap(ds):
        return json.dumps({"md": ds["m"].metadata(), "list": ds.buckets()["m"]}, sort_keys=True, default=str)

    for how in ("create", "update"):
        for mut in ("top", "nested"):
            ds = S.fresh(backend, wdir)
            d = {"cfg": {"inner": [1]}, "x": "y"}
            if how == "create":
                S.mk_bucket(ds, "m", data=d)
            else:
                S.mk_bucket(ds, "m")
                ds.update_bucket("m", data=d)
            s0 = snap(ds)
            if mut == "top":
                d["x"] = "MUTATED"
                d["new"] = 1
            else:
                d["cfg"]["inner"].append(99)
            out.append((f"{how}-data-then-mutate-caller-dict-{mut}", None if snap(ds) == s0 else f"metadata changed: {s0} -> {snap(ds)}"))
    for src in ("metadata", "buckets"):
        for mut in ("field", "data-top", "data-nested", "delete-key"):
            ds = S.fresh(backend, wdir)
            S.mk_bucket(ds, "m", data={"cfg": {"inner": [1]}, "x": "y"}, name="nm")
            s0 = snap(ds)
            md = ds["m"].metadata() if src == "metadata" else ds.buckets()["m"]
            if mut == "field":
                md["type"] = "MUTATED"
                md["hostname"] = "MUTATED"
            elif mut == "data-top":
                md["data"]["x"] = "MUTATED"
            elif mut == "data-nested":
                md["data"]["cfg"]["inner"].append(99)
            else:
                md.pop("client", None)
                md["data"].pop("x", None)
            out.append((f"mutate-dict-from-{src}-{mut}", None if snap(ds) == s0 else f"later reads changed: {s0} -> {snap(ds)}"))
    return out


def two_stores_case(backend, wdir):
    """two stores of one backend alive in one process, same bucket id in both: what was stored in the first
    comes back from the first, whatever is done to the second (seeded: the memory store's tables became class
    attributes shared by every instance)"""
    if backend == "peewee":
        return None  # one module-global database per process: a second store cannot coexist
    d1 = S.fresh(backend, wdir, name="first")
    S.mk_bucket(d1, "same")
    b1 = d1["same"]
    for n in range(3):
        b1.insert(Event(timestamp=T0 + timedelta(seconds=n), duration=1, data={"store": 1, "n": n}))
    first = sorted(S.ev_tuple(e) for e in b1.get(-1))
    d2 = S.fresh(backend, wdir, name="second", keep_open=True)
    if d2.buckets():
        return f"a brand-new {backend} store already lists buckets {sorted(d2.buckets())}"
    S.mk_bucket(d2, "same")
    b2 = d2["same"]
    b2.insert(Event(timestamp=T0 + timedelta(seconds=50), duration=2, data={"store": 2}))
    b2.insert([Event(timestamp=T0 + timedelta(seconds=60 + n), duration=2, data={"store": 2, "n": n}) for n in range(2)])
    ids2 = [e.id for e in b2.get(-1)]
    b2.delete(ids2[0])
    again = sorted(S.ev_tuple(e) for e in b1.get(-1))
    if again != first:
        return f"first store's bucket read {first} before and {again} after the second store was used"
    for t in first:
        e = b1.get_by_id(t[0])
        if e is None or S.ev_tuple(e) != t:
            return f"first store: get_by_id({t[0]}) = {None if e is None else S.ev_tuple(e)}, stored {t}"
    d2.delete_bucket("same")
    if sorted(S.ev_tuple(e) for e in b1.get(-1)) != first:
        return "deleting the bucket in the second store changed the first store's bucket"
    return None


def _unit_own(backend):
    ctx = _G["ctx"]
    u = Unit()
    wdir = ctx.wdir()
    for w, m, r in itertools.product(WRITES, MUTATIONS, READS):
        for victim in ("passed", "got_list", "got_id", "got_limit1", "got_window", "returned"):
            u.evaluations += 1
            u.transitions += 1
            u.states += 1
            u.nontrivial += 1
            u.traces += 1
            try:
                p = own_case(backend, wdir, w, m, r, victim)
            except Exception as ex:
                p = f"raised {type(ex).__name__}: {ex}"
            if p:
                u.violation(f"{backend}:aliasing:{victim}-object:{m}", f"{backend}: {p}", {"kind": "own", "backend": backend, "w": w, "m": m, "r": r, "victim": victim}, size=WRITES.index(w) * 10 + READS.index(r))
    u.evaluations += 1
    u.transitions += 1
    u.traces += 1
    try:
        p = two_stores_case(backend, wdir)
    except Exception as ex:
        p = f"raised {type(ex).__name__}: {ex}"
    if p:
        u.violation(f"{backend}:two-stores-in-one-process", f"{backend}: {p}", {"kind": "two-stores", "backend": backend})
    for name, p in meta_cases(backend, wdir):
        u.evaluations += 1
        u.transitions += 1
        u.states += 1
        u.nontrivial += 1
        u.traces += 1
        if p:
            u.violation(f"{backend}:aliasing:{name}", f"{backend} {name}: {p}", {"kind": "meta", "backend": backend, "name": name})
    u.sample({"kind": "ownership", "backend": backend, "history": ["insert(e)", "mutate e.data['k']['n']", "get_by_id"]}, cap=1)
    S.close_all()
    return u.result()


def _unit_paths(backend):
    """value fidelity through the OTHER write paths (replace by id, bulk upsert, replace_last): a
    placeholder is inserted, rewritten with the grid event, and read back by listing and by id"""
    ctx = _G["ctx"]
    u = Unit()
    ds = S.fresh(backend, ctx.wdir())
    specs = []
    for s in (0, (2 ** 51) // 10 ** 6, 1577880000):
        for ms in (0, 999):
            for du in DUR_ALL:
                specs.append((s, ms, 0, 0, du, None))
    for i in range(len(CATALOGUE)):
        specs.append((1577880000, 123, 0, 345, 86400 * 10 ** 6 + 1, i))
    bn = 0
    for path in ("replace", "upsert", "replace_last"):
        for lo in range(0, len(specs), 150):
            bn += 1
            bid = f"p{bn}"
            S.mk_bucket(ds, bid)
            b = ds[bid]
            chunk = specs[lo : lo + 150]
            want = {}
            for i, sp in enumerate(chunk):
                n = lo + i
                ph = b.insert(Event(timestamp=datetime(2001, 1, 1, tzinfo=UTC) + timedelta(seconds=n), duration=0, data={"placeholder": n}))
                ev = mk_event(sp, n)
                try:
                    if path == "replace":
                        b.replace(ph.id, ev)
                    elif path == "upsert":
                        ev.id = ph.id
                        b.insert([ev])
                    else:
                        # the placeholder just inserted is the newest only if nothing newer exists: keep
                        # grid events older than every placeholder by rewriting via replace_last right away
                        b.replace_last(Event(timestamp=datetime(2099, 1, 1, tzinfo=UTC) + timedelta(seconds=n), duration=0, data={"placeholder": n}))
                        b.replace_last(ev)
                except Exception as ex:
                    u.violation(f"{backend}:{path}:raised-{type(ex).__name__}", f"{backend} {path} of {sp}: {type(ex).__name__}: {ex}", {"kind": "paths", "backend": backend})
                    continue
                want[ph.id] = expect(sp, n)
                if path == "replace_last":
                    # replace_last moved the newest event (the placeholder) to the grid instant; re-park it in
                    # the far future so that the next placeholder (2001) is not the newest... simply verify now
                    got = b.get_by_id(ph.id)
                    t = None if got is None else S.ev_tuple(got)[1:]
                    u.evaluations += 1
                    u.transitions += 1
                    u.states += 1
                    u.nontrivial += 1
                    if t != want[ph.id]:
                        u.violation(f"{backend}:{path}:value-wrong", f"{backend} {path} of {sp}: stored {t} expected {want[ph.id]}", {"kind": "paths", "backend": backend, "path": path, "spec": list(sp)}, size=sp[4] // 1000)
                    b.delete(ph.id)
                    del want[ph.id]
            got = {t[0]: t[1:] for t in S.dump_bucket(ds, bid)}
            for i, w in want.items():
                u.evaluations += 1
                u.transitions += 1
                u.states += 1
                u.nontrivial += 1
                if got.get(i) != w:
                    u.violation(f"{backend}:{path}:value-wrong", f"{backend} {path}: id {i} stored {got.get(i)} expected {w}", {"kind": "paths", "backend": backend, "path": path}, size=w[1] // 1000)
            ds.delete_bucket(bid)
    u.sample({"kind": "fidelity through replace / bulk upsert / replace_last", "backend": backend, "events": len(specs)}, cap=1)
    S.close_all()
    return u.result()


IDOPS = ("ins", "bulk2", "bulk2same", "repl", "del_oldest", "del_newest", "del_middle", "ins_old", "repl_move", "recreate")


def _unit_ids(args):
    """ids and contents under histories: every sequence of <= depth ops over insert / bulk insert /
    bulk insert of the same object twice / replace_last / delete (oldest, newest, middle live id);
    after every op the listing must hold exactly the expected ids with exactly the expected
    contents (an insert adds fresh unique ids, a delete removes the addressed id and nothing else,
    replace_last rewrites one event), and lookup by id returns the listed event"""
    backend, firsts, depth = args
    ctx = _G["ctx"]
    u = Unit()
    wdir = ctx.wdir()

    def cont(e):
        return (S.us_of(e.timestamp), S.dus_of(e.duration), S.canon_data(e.data))

    for first in firsts:
        for rest in itertools.product(IDOPS, repeat=depth - 1):
            hist = (first,) + rest
            ds = S.fresh(backend, wdir)
            S.mk_bucket(ds, "i")
            b = ds["i"]
            n = 0
            model = {}
            u.traces += 1
            for step, op in enumerate(hist):
                live = sorted(model)
                fresh = []
                if op == "ins":
                    n += 1
                    e = Event(timestamp=T0 + timedelta(seconds=n), duration=1, data={"n": n})
                    fresh = [cont(e)]
                    b.insert(e)
                elif op == "recreate":
                    # the bucket is deleted and created again under the same id: what is inserted afterwards must
                    # come back from THIS bucket (seeded C01-4: inserts bound a remembered row id of the old bucket)
                    ds.delete_bucket("i")
                    S.mk_bucket(ds, "i")
                    b = ds["i"]
                    model = {}
                elif op == "ins_old":
                    # an event OLDER than everything stored: insertion order and time order now differ
                    # (seeded: id taken from the tail entry + a replace_last that sorts the list in place)
                    n += 1
                    e = Event(timestamp=T0 - timedelta(seconds=n), duration=1, data={"n": n})
                    fresh = [cont(e)]
                    b.insert(e)
                elif op == "repl_move" and live:
                    # the replacement moves the newest event behind all others in time
                    newest = b.get(1)[0]
                    n += 1
                    e = Event(timestamp=T0 - timedelta(seconds=1000 + n), duration=2, data={"n": n})
                    b.replace_last(e)
                    if newest.id in model:
                        model[newest.id] = cont(e)
                elif op == "bulk2":
                    es = [Event(timestamp=T0 + timedelta(seconds=n + 1), duration=1, data={"n": n + 1}), Event(timestamp=T0 + timedelta(seconds=n + 2), duration=0, data={"n": n + 2})]
                    n += 2
                    fresh = [cont(x) for x in es]
                    b.insert(es)
                elif op == "bulk2same":
                    n += 1
                    same = Event(timestamp=T0 + timedelta(seconds=n), duration=1, data={"twin": n})
                    fresh = [cont(same), cont(same)]
                    b.insert([same, same])  # the same object twice: two insertions (content-equal twins)
                elif op == "repl" and live:
                    newest = b.get(1)[0]
                    n += 1
                    e = Event(timestamp=newest.timestamp, duration=2, data={"n": n})
                    b.replace_last(e)
                    if newest.id in model:
                        model[newest.id] = cont(e)
                elif op.startswith("del") and live:
                    tgt = live[0] if op == "del_oldest" else live[-1] if op == "del_newest" else live[len(live) // 2]
                    b.delete(tgt)
                    del model[tgt]
                else:
                    break
                u.evaluations += 1
                u.transitions += 1
                dump = S.dump_bucket(ds, "i")
                got = {}
                bad = None
                for t in dump:
                    if t[0] in got or t[0] is None:
                        bad = ("ids-not-unique", f"ids in the bucket after {hist[: step + 1]}: {[x[0] for x in dump]}")
                    got[t[0]] = t[1:]
                if not bad:
                    new_ids = [i for i in got if i not in model]
                    if sorted(got[i] for i in new_ids) != sorted(fresh) or len(got) != len(model) + len(fresh):
                        bad = ("wrong-events-after-op", f"after {hist[: step + 1]}: listing {sorted(got.items())}; expected the {len(model)} known events plus new {fresh}")
                    else:
                        for i, c in model.items():
                            if got.get(i) != c:
                                bad = ("wrong-event-changed-or-removed", f"after {hist[: step + 1]}: id {i} expected {c} got {got.get(i)}; listing ids {sorted(got)}")
                                break
                if not bad:
                    for i, c in got.items():
                        e = b.get_by_id(i)
                        if e is None or S.ev_tuple(e)[1:] != c:
                            bad = ("lookup-differs-from-listing", f"after {hist[: step + 1]}: get_by_id({i}) = {None if e is None else S.ev_tuple(e)}, listing {c}")
                            break
                if bad:
                    u.violation(f"{backend}:history:{bad[0]}", f"{backend}: {bad[1]}", {"kind": "ids", "backend": backend, "history": list(hist[: step + 1])}, size=step)
                    break
                model = got
            u.states += 1
            u.nontrivial += 1 if any(o.startswith("del") or o == "repl" for o in hist) else 0
    u.sample({"kind": "id/content history", "backend": backend, "history": [firsts[0]] + list(IDOPS[:depth - 1])}, cap=1)
    S.close_all()
    return u.result()


ACK_FAULTS = ("bulk_unserialisable", "single_unserialisable", "upsert_unserialisable", "delete_absent_bucket", "update_absent_bucket", "lookup_absent_bucket")


def ack_case(backend, wdir, k, fault, into_other):
    """k acknowledged single inserts that nobody has read yet, then a REJECTED operation, then reads:
    every acknowledged event must still be listed and found by id"""
    ds = S.fresh(backend, wdir)
    S.mk_bucket(ds, "x")
    S.mk_bucket(ds, "y")
    ids = []
    for n in range(k):
        e = ds["x"].insert(Event(timestamp=T0 + timedelta(seconds=n), duration=1, data={"n": n}))
        ids.append(e.id)
    tgt = ds["y" if into_other else "x"]
    bad = Event(timestamp=T0 + timedelta(seconds=99), duration=1, data={"bad": object()})
    try:
        if fault == "bulk_unserialisable":
            tgt.insert([Event(timestamp=T0 + timedelta(seconds=98), duration=1, data={"ok": 1}), bad])
        elif fault == "single_unserialisable":
            tgt.insert(bad)
        elif fault == "upsert_unserialisable":
            bad.id = ids[0] if not into_other else 1
            tgt.insert([bad])
        elif fault == "delete_absent_bucket":
            ds.delete_bucket("no-such-bucket")
        elif fault == "update_absent_bucket":
            ds.update_bucket("no-such-bucket", type_id="t")
        elif fault == "lookup_absent_bucket":
            ds["no-such-bucket"]
        raised = False
    except Exception:
        raised = True
    if not raised and fault == "upsert_unserialisable" and not into_other:
        return None  # this backend accepted the event (memory serialises nothing): an ordinary upsert of event 0
    # (the memory store has nothing to serialise and legitimately accepts such an event: read the
    # markers directly instead of dumping data as JSON)
    got = sorted(e.data["n"] for e in ds["x"].get(-1) if isinstance(e.data, dict) and "n" in e.data)
    if got != list(range(k)):
        return f"{k} inserts were acknowledged, then {fault} ({'other' if into_other else 'same'} bucket) was rejected; the bucket now lists events {got}"
    for i in ids:
        if i is not None and ds["x"].get_by_id(i) is None:
            return f"after rejected {fault}, acknowledged event id {i} cannot be looked up"
    return None


def _unit_ack(backend):
    ctx = _G["ctx"]
    u = Unit()
    for k in (1, 2, 3):
        for fault in ACK_FAULTS:
            for into_other in (False, True):
                u.evaluations += 1
                u.transitions += 1
                u.states += 1
                u.nontrivial += 1
                u.traces += 1
                try:
                    p = ack_case(backend, ctx.wdir(), k, fault, into_other)
                except Exception as ex:
                    p = f"raised {type(ex).__name__}: {ex}"
                if p:
                    u.violation(f"{backend}:acknowledged-insert-lost-after-rejected-{fault}", f"{backend}: {p}", {"kind": "ack", "backend": backend, "k": k, "fault": fault, "into_other": into_other}, size=k)
    u.sample({"kind": "acknowledged inserts then a rejected operation", "backend": backend, "faults": list(ACK_FAULTS)}, cap=1)
    S.close_all()
    return u.result()


def _replay_ids(backend, hist):
    import itertools as _it

    orig = _it.product
    try:
        itertools.product = lambda *a, **k: iter([tuple(hist[1:])])
        return _unit_ids((backend, (hist[0],), len(hist)))
    finally:
        itertools.product = orig


def _dispatch(x):
    return {"fid": _unit_fid, "own": _unit_own, "ids": _unit_ids, "ack": _unit_ack, "paths": _unit_paths}[x[0]](x[1])


def run(ctx):
    _G["ctx"] = ctx
    g = grid(ctx.thorough)
    batches = []
    B = 200
    for i in range(0, len(g), B):
        batches.append((i, g[i : i + B]))
    units = [("own", b) for b in S.BACKENDS] + [("ack", b) for b in S.BACKENDS] + [("paths", b) for b in S.BACKENDS]
    depth = 5 if ctx.thorough else 4
    for backend in S.BACKENDS:
        for op in IDOPS[:3]:
            units.append(("ids", (backend, (op,), depth)))
    for backend in S.BACKENDS:
        k = ctx.workers * (5 if backend == "peewee" else 2)
        for ch in chunked(batches, k):
            units.append(("fid", (backend, ch)))
    units.sort(key=lambda x: 0 if x[0] == "fid" and x[1][0] == "peewee" else 1)
    agg = Agg()
    for r in ctx.pmap(_dispatch, units):
        agg.add(r)
    agg.extra["grid_events"] = len(g)
    agg.extra["data_catalogue"] = len(CATALOGUE)
    ctx.selfcheck(agg.nontrivial > 0, "no non-trivial grid point")
    return agg


def run_case(ctx, case):
    _G["ctx"] = ctx
    if case["kind"] == "fid":
        r = _unit_fid((case["backend"], [(0, [tuple(s) for s in case["specs"]])]))
        return {"violations": [[v["key"], v["what"]] for v in r["violations"]]}
    if case["kind"] == "two-stores":
        p = two_stores_case(case["backend"], ctx.wdir())
        return {"violations": [["two-stores", p]] if p else []}
    if case["kind"] == "own":
        p = own_case(case["backend"], ctx.wdir(), case["w"], case["m"], case["r"], case["victim"])
        return {"violations": [["aliasing", p]] if p else []}
    if case["kind"] == "paths":
        r = _unit_paths(case["backend"])
        return {"violations": [[v["key"], v["what"]] for v in r["violations"]]}
    if case["kind"] == "ack":
        p = ack_case(case["backend"], ctx.wdir(), case["k"], case["fault"], case["into_other"])
        return {"violations": [["acknowledged-insert-lost", p]] if p else []}
    if case["kind"] == "ids":
        h = case["history"]
        global IDOPS
        keep = IDOPS
        try:
            # replay exactly this history: restrict the product to it
            r = _replay_ids(case["backend"], tuple(h))
        finally:
            IDOPS = keep
        return {"history": h, "violations": [[v["key"], v["what"]] for v in r["violations"]]}
    res = [x for x in meta_cases(case["backend"], ctx.wdir()) if x[0] == case["name"]]
    return {"violations": [[n, p] for n, p in res if p]}
