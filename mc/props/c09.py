"""C09 -- interval intersection and union of event lists are exact.

Explorer L: every pair of internally non-overlapping lists of <= n lattice events
(zero-length events anywhere, duplicates of them) in sorted and reversed input
order for filter_period_intersect; every multiset of <= m arbitrary lattice
events, every split into two arguments, for period_union.  Oracle: integer
interval arithmetic (pieces multiset; closed-interval point sets on a half-unit grid)."""
import collections
import itertools
import json

from aw_transform import filter_period_intersect, period_union
from mc.core import Agg, Unit
from mc.drivers import stores as S
from mc.lattice import Emb, chunked, nonoverlapping_sets, arbitrary_multisets

BOUNDS = {
    "quick": {"intersect": "all pairs of non-overlapping lists with <=3 events on lattice 0..5 (zero-length events incl. duplicates), input given sorted and reversed; unit 1 s; n<=2 also at 1 ms", "union": "every multiset of <=4 arbitrary events on 0..5 (unit 1 s; <=3 also at 1 ms), splits {all-left, 1|rest, half|half, all-right}, sorted and reversed order"},
    "thorough": {"intersect": "n<=3 on 0..6 plus n=4 vs n<=2 on 0..5; every permutation of each list for n<=3 on 0..4", "union": "multisets of <=5 events on 0..5; units 1 s and 1 ms"},
}
RULE = (
    "intersection: full product of the two list spaces; union: every multiset x listed splits x orders; "
    "non-trivial (intersection) = pairs in which some event overlaps >=2 events of the other list, or a zero-length event lies strictly inside an event of the other list; (union) = multisets of >=2 events"
)
ASSUMPTIONS = [
    "internally non-overlapping = no two events of one list share positive-length time (zero-length events may lie anywhere, also inside another event, also duplicated)",
    "zero-length output pieces of the intersection are ignored (statement: 'zero-length pieces aside')",
    "period_union clearing `data` on the input events it passes through is not flagged (non-modification is stated for the intersection only)",
]
_G = {}


def eid(i):
    # ids are unique per bucket only: the first two events of a list share id 7 (as events concatenated from
    # two buckets do), and so do events of the other list (seeded: "repeated" ids were dropped as duplicates)
    return 7 if i < 2 else i + 5


def mk(emb, ivs, tag, with_ids=True):
    return [emb.ev(s, d, {"label": f"{tag}{i}"}, id=(eid(i) if with_ids else None)) for i, (s, d) in enumerate(ivs)]


def snap(evs):
    return [S.ev_tuple(e) for e in evs]


def check_intersect(emb, a, b, order):
    A, B = mk(emb, a, "a"), mk(emb, b, "b", with_ids=len(b) % 2 == 1)
    if order == "rev":
        A.reverse()
        B.reverse()
    elif order == "rot":
        A, B = A[1:] + A[:1], B[1:] + B[:1]  # neither ascending nor descending once a list has 3 events
    elif isinstance(order, tuple):
        A = [A[i] for i in order[0]]
        B = [B[i] for i in order[1]]
    A0, B0 = snap(A), snap(B)
    ids_a = [id(x) for x in A]
    try:
        out = filter_period_intersect(A, B)
        again = filter_period_intersect(A, B)
    except Exception as e:
        return [("intersect-raised", f"{type(e).__name__}: {e}")]
    probs = []
    if snap(out) != snap(again):
        probs.append(("intersect-second-call-differs", "same lists, different result the second time"))
    if snap(A) != A0 or snap(B) != B0 or [id(x) for x in A] != ids_a:
        probs.append(("intersect-input-modified", f"inputs after call: {snap(A)} / {snap(B)}"))
    want = collections.Counter()
    for i, (s, d) in enumerate(a):
        for (t, f) in b:
            lo, hi = max(s, t), min(s + d, t + f)
            if hi - lo > 0:
                want[(lo, hi, f"a{i}", eid(i))] += 1
    got = collections.Counter()
    for e in out:
        lo, hi = emb.iv(e)
        if hi - lo > 0:
            got[(lo, hi, e.data.get("label"), e.id)] += 1
        elif hi - lo < 0:
            probs.append(("intersect-negative-piece", f"{(lo, hi)}"))
    if got != want:
        miss = want - got
        extra = got - want
        if miss:
            probs.append(("intersect-piece-missing", f"missing {sorted(miss.elements())}; got {sorted(got.elements())}"))
        if extra:
            probs.append(("intersect-piece-extra-or-wrong", f"unexpected {sorted(extra.elements())}; expected {sorted(want.elements())}"))
    if not probs:
        # the SAME event objects, legally changed (everything moved one unit later), then used again: the result
        # moves with them (seeded: the computed period was remembered on the Event object and never invalidated)
        from datetime import timedelta

        for e in A + B:
            e.timestamp = e.timestamp + timedelta(microseconds=emb.unit_us)
        try:
            out3 = filter_period_intersect(A, B)
        except Exception as e:
            return [("intersect-raised", f"after moving the events: {type(e).__name__}: {e}")]
        got3 = collections.Counter()
        for e in out3:
            lo, hi = emb.iv(e)
            if hi - lo > 0:
                got3[(lo - 1, hi - 1, e.data.get("label"), e.id)] += 1
        if got3 != want:
            probs.append(("intersect-stale-after-events-moved", f"same objects moved by one unit: pieces (moved back) {sorted(got3.elements())} expected {sorted(want.elements())}"))
    return probs


def points(ivs):
    """closed intervals [s, s+d] on the half-unit grid"""
    p = set()
    for s, d in ivs:
        p.update(range(2 * s, 2 * (s + d) + 1))
    return p


def check_union(emb, a, b, order):
    A, B = mk(emb, a, "a"), mk(emb, b, "b")
    if order == "rev":
        A.reverse()
        B.reverse()
    elif order == "rot":
        # neither ascending nor descending (two buckets concatenated; seeded: heapq.merge over lists that
        # were only flipped when they looked newest-first)
        A, B = A[1:] + A[:1], B[1:] + B[:1]
    try:
        out = period_union(A, B)
    except Exception as e:
        return [("union-raised", f"{type(e).__name__}: {e}")]
    probs = []
    got = []
    for e in out:
        lo, hi = emb.iv(e)
        if not (float(lo).is_integer() and float(hi).is_integer()):
            return [("union-off-lattice", f"{(lo, hi)}")]
        got.append((int(lo), int(hi)))
        if e.data:
            probs.append(("union-output-has-data", f"{e.data}"))
    if any(h < l for l, h in got):
        probs.append(("union-negative-length", f"{got}"))
    for (l0, h0), (l1, h1) in zip(got, got[1:]):
        if not l1 > h0:
            probs.append(("union-not-sorted-or-no-positive-gap", f"{got}"))
            break
    gp = set()
    for l, h in got:
        gp.update(range(2 * l, 2 * h + 1))
    wp = points(list(a) + list(b))
    if gp != wp:
        probs.append(("union-point-set-wrong", f"output {got} covers half-unit points {sorted(gp ^ wp)} differently from the inputs {list(a) + list(b)}"))
    if not probs:
        from datetime import timedelta

        for e in A + B:
            e.timestamp = e.timestamp + timedelta(microseconds=emb.unit_us)
        try:
            out3 = period_union(A, B)
        except Exception as e:
            return [("union-raised", f"after moving the events: {type(e).__name__}: {e}")]
        got3 = [tuple(int(x) - 1 for x in emb.iv(e)) for e in out3]
        if got3 != got:
            probs.append(("union-stale-after-events-moved", f"same objects moved by one unit: union (moved back) {got3}, before {got}"))
    return probs


def _nt_pair(a, b):
    for x, y in ((a, b), (b, a)):
        for s, d in x:
            if d == 0 and any(t < s < t + f for t, f in y):
                return True  # zero-length event strictly inside an event of the other list
    for x, y in ((a, b), (b, a)):
        for s, d in x:
            if sum(1 for t, f in y if min(s + d, t + f) - max(s, t) > 0) >= 2:
                return True
    return False


def _unit_i(args):
    unit_us, As, Bs_name, orders = args
    ctx = _G["ctx"]
    emb = Emb(ctx.base, unit_us)
    Bs = _G["sets"][Bs_name]
    u = Unit()
    for a in As:
        for b in Bs:
            u.states += 1
            if _nt_pair(a, b):
                u.nontrivial += 1
            ords = orders
            if orders == "perm":
                ords = [(pa, pb) for pa in itertools.permutations(range(len(a))) for pb in itertools.permutations(range(len(b)))]
            for order in ords:
                u.evaluations += 1
                u.transitions += 1
                for sym, det in check_intersect(emb, a, b, order)[:1]:
                    case = {"fn": "intersect", "unit_us": unit_us, "a": [list(x) for x in a], "b": [list(x) for x in b], "order": order if isinstance(order, str) else [list(order[0]), list(order[1])]}
                    u.violation(f"intersect:{sym}", f"filter_period_intersect({list(a)}, {list(b)}) order {order}: {det}", case, size=(len(a) + len(b)) * 1000 + len(json.dumps(case)))
    if As:
        u.sample({"fn": "filter_period_intersect", "unit_us": unit_us, "events": [list(x) for x in As[-1]], "against": f"all {len(Bs)} lists of {Bs_name}", "orders": orders if isinstance(orders, str) else list(orders)}, cap=1)
    return u.result()


def _unit_u(args):
    unit_us, Ms = args
    ctx = _G["ctx"]
    emb = Emb(ctx.base, unit_us)
    u = Unit()
    for m in Ms:
        n = len(m)
        splits = sorted({0, min(1, n), n // 2, n})
        u.states += 1
        if n >= 2:
            u.nontrivial += 1
        for k in splits:
            for order in ("sorted", "rev", "rot"):
                if order == "rot" and max(k, n - k) < 3:
                    continue
                a, b = m[:k], m[k:]
                u.evaluations += 1
                u.transitions += 1
                for sym, det in check_union(emb, a, b, order)[:1]:
                    case = {"fn": "union", "unit_us": unit_us, "a": [list(x) for x in a], "b": [list(x) for x in b], "order": order}
                    u.violation(f"union:{sym}", f"period_union({list(a)}, {list(b)}) order {order}: {det}", case, size=n * 1000 + len(json.dumps(case)))
    if Ms:
        u.sample({"fn": "period_union", "unit_us": unit_us, "multiset": [list(x) for x in Ms[-1]], "splits": "0|n, 1|n-1, n/2|n/2, n|0", "orders": ["sorted", "rev", "rot (lists of >= 3)"]}, cap=1)
    return u.result()


def _dispatch(x):
    return _unit_i(x[1]) if x[0] == "i" else _unit_u(x[1])


def run(ctx):
    _G["ctx"] = ctx
    sets = {}
    _G["sets"] = sets
    units = []
    space = {}
    if not ctx.thorough:
        sets["N5n3"] = nonoverlapping_sets(5, 3)
        sets["N4n2"] = nonoverlapping_sets(4, 2)
        for ch in chunked(sets["N5n3"], ctx.workers * 6):
            units.append(("i", (1_000_000, ch, "N5n3", ("sorted", "rev", "rot"))))
        for ch in chunked(sets["N4n2"], ctx.workers):
            units.append(("i", (1_000, ch, "N4n2", ("sorted", "rev"))))
        ms = arbitrary_multisets(5, 4)
        for ch in chunked(ms, ctx.workers * 2):
            units.append(("u", (1_000_000, ch)))
        # millisecond lattice: a gap of exactly one unit is a real gap (a seeded 1 ms 'tolerance' fused them)
        for ch in chunked(arbitrary_multisets(5, 3), ctx.workers):
            units.append(("u", (1_000, ch)))
        space = {"intersect_lists_0..5_n<=3": len(sets["N5n3"]), "intersect_lists_0..4_n<=2": len(sets["N4n2"]), "union_multisets": len(ms)}
    else:
        sets["N6n3"] = nonoverlapping_sets(6, 3)
        sets["N5n2"] = nonoverlapping_sets(5, 2)
        sets["N5n4"] = [x for x in nonoverlapping_sets(5, 4) if len(x) == 4]
        sets["N4n3"] = nonoverlapping_sets(4, 3)
        for ch in chunked(sets["N6n3"], ctx.workers * 16):
            units.append(("i", (1_000_000, ch, "N6n3", ("sorted", "rev"))))
        for ch in chunked(sets["N5n4"], ctx.workers * 4):
            units.append(("i", (1_000_000, ch, "N5n2", ("sorted", "rev"))))
        for ch in chunked(sets["N5n2"], ctx.workers * 2):
            units.append(("i", (1_000_000, ch, "N5n4", ("sorted", "rev"))))
        for ch in chunked(sets["N4n3"], ctx.workers * 8):
            units.append(("i", (1_000, ch, "N4n3", "perm")))
        ms = arbitrary_multisets(5, 5)
        for unit_us in (1_000_000, 1_000):
            for ch in chunked(ms, ctx.workers * 4):
                units.append(("u", (unit_us, ch)))
        space = {k: len(v) for k, v in sets.items()}
        space["union_multisets"] = len(ms)
    agg = Agg()
    for r in ctx.pmap(_dispatch, units):
        agg.add(r)
    agg.extra["space"] = space
    ctx.selfcheck(agg.nontrivial > 0, "no non-trivial pair")
    return agg


def run_case(ctx, case):
    _G["ctx"] = ctx
    emb = Emb(ctx.base, case["unit_us"])
    a = tuple(tuple(x) for x in case["a"])
    b = tuple(tuple(x) for x in case["b"])
    order = case["order"] if isinstance(case["order"], str) else (tuple(case["order"][0]), tuple(case["order"][1]))
    probs = check_intersect(emb, a, b, order) if case["fn"] == "intersect" else check_union(emb, a, b, order)
    return {"a": a, "b": b, "violations": [list(p) for p in probs]}
