"""C19 -- annotating transforms add their keys and leave everything else alone.

Explorer L: every rule list of <= 2 rules over the full rule alphabet (4 categories
with depth ties x 6 regexes incl. empty and unicode x ignore_case x 6 select_keys
forms) and every rule list of 3 over a reduced alphabet, applied by categorize and
tag to a fixed list of 8 event shapes (matching strings in different keys,
non-string values holding matching strings, missing keys, pre-existing $keys);
split_url_events over a URL component product; simplify_string over a title
product.  Reference matching is written without `re` (literal / anchored tests)."""
import itertools
import json
from copy import deepcopy

from aw_transform import Rule, categorize, simplify_string, split_url_events, tag
from mc.core import Agg, Unit
from mc.drivers import stores as S
from mc.lattice import Emb, chunked

CATS = (("A",), ("A", "B"), ("C",), ("C", "D"))
REGEXES = ("foo", "FOO", "o", "^x", "", "é", ".*", "^$", " ", "\\Soo")  # '.*' and '^$' match the empty string; ' ' is whitespace only
SELECTS = (None, (), ("title",), ("missing",), ("num",), ("missing", "title"))
EVENT_DATA = (
    {"title": "foo bar", "app": "Editor"},
    {"app": "foo bar", "title": "Editor"},  # the same strings in the same order under the OTHER keys (seeded: per-call memo keyed by the values only)
    {"title": "FOO", "app": "x-app"},
    {"title": "xé", "num": 1},
    {"num": 1},
    {"title": "", "url": "http://foo.org/o"},
    {"app": "bar", "title": "baz", "nested": {"title": "foo"}, "lst": ["foo", "xo"]},
    {},
    {"title": "Xfoo", "$category": ["old"], "$tags": ["old"], "É": "É"},
    {"url": "http://x", "$domain": "foo.org", "$protocol": "http"},  # as split_url_events leaves it: a string under a $-key is a value like any other
)
BOUNDS = {
    "quick": {"rule_alphabet": "4 categories x 10 regexes x 2 ignore_case x 6 select_keys = 480 rules", "rule_lists": "all ordered lists of <=2 rules (187k) + all ordered lists of 3 rules over two 24-rule alphabets (one without, one with differing select_keys; 13.8k each) + all lists of 4 over 9 rules (6.5k); each list is used for categorize, tag (rules rebuilt from the same dicts) and categorize again (same Rule objects)", "events": "10 event shapes in one list", "urls": "2x3x2x2x2x2 components", "titles": "prefix x marker x fps x app-present product"},
    "thorough": {"rule_lists": "additionally all ordered lists of 3 rules over 72 rules (373k)", "rest": "as quick"},
}
RULE = (
    "categorize and tag are applied with every enumerated rule list to a list of 8 event shapes and each returned event is compared with a reference (literal/anchored matching without `re`, deepest-later-wins fold, tags in rule order) and with its input for length, order, timestamp, duration and unrelated data; "
    "non-trivial = rule lists in which at least two rules match some event at equal depth, or a select_keys list hits a missing or non-string value, or the regex is empty, or matching depends on ignore_case"
)
ASSUMPTIONS = [
    "regex alphabet is restricted to literals and '^x' so that the reference can match without the `re` module",
    "simplify_string is only given events that carry the key (behaviour on a missing key is not stated)",
    "categorize/tag/split_url_events may annotate the given event objects in place (statement only fixes what is returned)",
]
_G = {}


def ref_match(rule, data):
    cat, regex, ic, sel = rule
    if not regex:
        return False
    vals = [data.get(k) for k in sel] if sel else list(data.values())
    for v in vals:
        if not isinstance(v, str):
            continue
        if regex == "\\Soo":
            # a non-whitespace character followed by "oo" (the class escape itself is case-sensitive syntax:
            # seeded ignore_case-by-lower-casing-the-pattern turned it into \\s)
            h = v.lower() if ic else v
            if any(not h[i].isspace() and h[i + 1 : i + 3] == "oo" for i in range(len(h))):
                return True
            continue
        hay, needle = (v.lower(), regex.lower()) if ic else (v, regex)
        if needle == ".*":
            return True  # matches every string value, also the empty one -- but never a MISSING value
        if needle == "^$":
            if hay == "":
                return True
            continue
        if needle.startswith("^"):
            if hay.startswith(needle[1:]):
                return True
        elif needle in hay:
            return True
    return False


def mk_spec(rule):
    cat, regex, ic, sel = rule
    d = {"regex": regex, "ignore_case": ic}
    if sel is not None:
        d["select_keys"] = list(sel)
    return d


def mk_rule(rule, spec=None):
    return (list(rule[0]), Rule(mk_spec(rule) if spec is None else spec))


def mk_events(emb):
    return [emb.ev(i, i % 3, deepcopy(d)) for i, d in enumerate(EVENT_DATA)]


def frame_ok(ev_in, ev_out, owned):
    probs = []
    if S.us_of(ev_out.timestamp) != S.us_of(ev_in.timestamp) or ev_out.duration != ev_in.duration:
        probs.append(("timestamp-or-duration-changed", f"{ev_in.timestamp},{ev_in.duration} -> {ev_out.timestamp},{ev_out.duration}"))
    a = {k: v for k, v in ev_in.data.items() if k not in owned}
    b = {k: v for k, v in ev_out.data.items() if k not in owned}
    if a != b:
        probs.append(("unrelated-data-changed", f"{a} -> {b}"))
    return probs


def check_rules(emb, rules):
    probs = []
    # ONE set of rule dicts for all calls, as a caller who keeps a rule list around has it (a seeded
    # Rule.__init__ popped the options out of the caller's dict: the second Rule built from it never matched);
    # the third call reuses the Rule OBJECTS of the first (a stateful rule would show)
    specs = [mk_spec(r) for r in rules]
    kept = {}
    for fn, key in ((categorize, "$category"), (tag, "$tags"), (categorize, "$category")):
        evs = mk_events(emb)
        orig = deepcopy(evs)
        try:
            if fn is categorize and "c" in kept:
                classes = kept["c"]
            else:
                classes = [mk_rule(r, sp) for r, sp in zip(rules, specs)]
            if fn is categorize:
                kept["c"] = classes
            if fn is tag:
                classes = [("/".join(c), r) for c, r in classes]
            out = fn(evs, classes)
        except Exception as e:
            probs.append((f"{fn.__name__}-raised", f"{type(e).__name__}: {e}"))
            continue
        if len(out) != len(orig):
            probs.append((f"{fn.__name__}-length-changed", f"{len(orig)} -> {len(out)}"))
            continue
        for i, (ei, eo) in enumerate(zip(orig, out)):
            for sym, det in frame_ok(ei, eo, {key}):
                probs.append((f"{fn.__name__}-{sym}", f"event {i}: {det}"))
            matched = [r for r in rules if ref_match(r, ei.data)]
            if fn is categorize:
                want = ["Uncategorized"]
                for r in matched:
                    if len(r[0]) >= len(want):
                        want = list(r[0])
                if eo.data.get(key) != want:
                    probs.append(("categorize-wrong-category", f"event data {ei.data}: got {eo.data.get(key)} expected {want}"))
            else:
                want = ["/".join(r[0]) for r in matched]
                if eo.data.get(key) != want:
                    probs.append(("tag-wrong-tags", f"event data {ei.data}: got {eo.data.get(key)} expected {want}"))
    return probs


def _nt(rules):
    for d in EVENT_DATA:
        m = [r for r in rules if ref_match(r, d)]
        depths = [len(r[0]) for r in m]
        if len(depths) >= 2 and depths.count(max(depths)) >= 2:
            return True
    for r in rules:
        if r[1] == "" or (r[3] and ("missing" in r[3] or "num" in r[3])):
            return True
        if r[2] and any(ref_match(r, d) != ref_match((r[0], r[1], False, r[3]), d) for d in EVENT_DATA):
            return True
    return False


def _unit_rules(args):
    firsts, alpha_name, n = args
    ctx = _G["ctx"]
    emb = Emb(ctx.base, 1_000_000)
    alpha = _G["alphas"][alpha_name]
    u = Unit()
    for first in firsts:
        for rest in itertools.product(alpha, repeat=max(0, n - 1)):
            rules = (first,) + rest if n else ()
            u.states += 1
            u.evaluations += 3
            u.transitions += 3 * len(EVENT_DATA)
            if _nt(rules):
                u.nontrivial += 1
            for sym, det in check_rules(emb, rules)[:1]:
                case = {"kind": "rules", "rules": [[list(r[0]), r[1], r[2], None if r[3] is None else list(r[3])] for r in rules]}
                u.violation(f"classify:{sym}", f"rules {case['rules']}: {det}", case, size=n * 1000 + len(json.dumps(case)))
        if n == 0:
            break
    if firsts and n:
        r = firsts[0]
        u.sample({"kind": "rules", "first_rule": [list(r[0]), r[1], r[2], None if r[3] is None else list(r[3])], "list_length": n, "alphabet": alpha_name}, cap=1)
    return u.result()


URL_PARTS = dict(scheme=("http", "https"), host=("example.com", "www.example.com", "wwwx.org:8080"), path=("", "/a/b"), params=("", ";p=1"), query=("", "?q=1&r=2"), frag=("", "#frag"))


def _unit_urls(_):
    ctx = _G["ctx"]
    emb = Emb(ctx.base, 1_000_000)
    u = Unit()
    combos = list(itertools.product(*URL_PARTS.values()))
    evs, wants = [], []
    for i, (sch, host, path, params, query, frag) in enumerate(combos):
        if params and not path:
            path_ = "/"
        else:
            path_ = path
        url = f"{sch}://{host}{path_}{params}{query}{frag}"
        evs.append(emb.ev(i, 1, {"url": url, "title": "t", "n": i}))
        wants.append({"$protocol": sch, "$domain": host[4:] if host.startswith("www.") else host, "$path": path_, "$params": params[1:], "$options": query[1:], "$identifier": frag[1:]})
    evs.append(emb.ev(len(combos), 1, {"title": "no url here"}))
    wants.append({})
    orig = deepcopy(evs)
    out = split_url_events(evs)
    u.evaluations += 1
    u.states += len(evs)
    u.transitions += len(evs)
    u.nontrivial += len(evs)
    owned = {"$protocol", "$domain", "$path", "$params", "$options", "$identifier"}
    if len(out) != len(orig):
        u.violation("split_url:length-changed", f"{len(orig)} -> {len(out)}", {"kind": "urls"})
    else:
        for ei, eo, w in zip(orig, out, wants):
            probs = frame_ok(ei, eo, owned)
            got = {k: v for k, v in eo.data.items() if k in owned}
            if got != w:
                probs.append(("wrong-parts", f"url {ei.data.get('url')}: got {got} expected {w}"))
            for sym, det in probs[:1]:
                u.violation(f"split_url:{sym}", det, {"kind": "urls", "url": ei.data.get("url")})
    u.sample({"kind": "urls", "n": len(evs), "example": orig[5].data["url"]})
    return u.result()


def ref_simplify(title, is_title_key, has_app):
    t = title
    # "(N) " prefix
    if t.startswith("("):
        j = t.find(")")
        if j > 1 and t[1:j].isdigit() and t[1:j].isascii():
            t = t[j + 1 :].lstrip(" \t\n\r\x0b\x0c")
    if is_title_key and has_app:
        # "FPS: <number>" -> "FPS: ..."
        out, i = "", 0
        while True:
            k = t.find("FPS:", i)
            if k < 0:
                out += t[i:]
                break
            j = k + 4
            m = j
            while m < len(t) and t[m] in " \t\n\r\x0b\x0c":
                m += 1
            e = m
            while e < len(t) and (t[e].isdigit() and t[e].isascii() or t[e] == "."):
                e += 1
            if m > j and e > m:
                out += t[i:k] + "FPS: ..."
                i = e
            else:
                out += t[i : k + 4]
                i = k + 4
        t = out
        if t[:1] in ("●", "*"):
            t = t[1:].lstrip(" \t\n\r\x0b\x0c")
    return t


def _unit_titles(_):
    ctx = _G["ctx"]
    emb = Emb(ctx.base, 1_000_000)
    u = Unit()
    prefixes = ("", "(2) ", "(10)", "(x) ", "() ")
    markers = ("", "● ", "*", "●\t ")
    bodies = ("Facebook", "Cemu - FPS: 59.2 - BotW", "FPS:  60", "FPS: x", "a (3) b", "")
    for key in ("title", "label"):
        for has_app in (False, True):
            evs, wants = [], []
            for i, (p, m, b) in enumerate(itertools.product(prefixes, markers, bodies)):
                for t in (p + m + b, m + p + b):
                    d = {key: t, "other": "(9) ● FPS: 1.0"}
                    if has_app:
                        d["app"] = "Game"
                    evs.append(emb.ev(len(evs), 1, d))
                    wants.append(ref_simplify(t, key == "title", has_app))
            orig = deepcopy(evs)
            snap = [S.ev_tuple(e) for e in evs]
            out = simplify_string(evs, key)
            u.evaluations += 1
            u.states += len(evs)
            u.transitions += len(evs)
            u.nontrivial += len(evs)
            if [S.ev_tuple(e) for e in evs] != snap:
                u.violation("simplify:input-modified", "simplify_string changed its input events", {"kind": "titles", "key": key, "has_app": has_app})
            if len(out) != len(orig):
                u.violation("simplify:length-changed", f"{len(orig)} -> {len(out)}", {"kind": "titles", "key": key, "has_app": has_app})
                continue
            for ei, eo, w in zip(orig, out, wants):
                probs = frame_ok(ei, eo, {key})
                if eo.data.get(key) != w:
                    probs.append(("wrong-title", f"{ei.data[key]!r} (key={key}, app={has_app}) -> {eo.data.get(key)!r} expected {w!r}"))
                for sym, det in probs[:1]:
                    u.violation(f"simplify:{sym}", det, {"kind": "titles", "key": key, "has_app": has_app, "title": ei.data[key]})
    u.sample({"kind": "titles", "example": "(2) ● Cemu - FPS: 59.2 - BotW"})
    return u.result()


def _dispatch(x):
    return {"r": _unit_rules, "u": _unit_urls, "t": _unit_titles}[x[0]](x[1])


def _cfg(ctx):
    _G["ctx"] = ctx
    full = tuple((c, r, ic, s) for c in CATS for r in REGEXES for ic in (False, True) for s in SELECTS)
    # rules that all match the same events but select differently: a list of 3-4 of them interleaves
    # selections (seeded: rules grouped by select_keys were evaluated group by group, i.e. out of order)
    sel24 = tuple((c, r, False, s) for c in CATS for r in ("foo", "o") for s in (None, ("title",), ("missing", "title")))
    tiny9 = tuple((c, "o", False, s) for c in (("A",), ("C",), ("A", "B")) for s in (None, ("title",), ("title", "app")))
    small = tuple((c, r, ic, None) for c in CATS for r in ("foo", "o", "") for ic in (False, True))
    mid = tuple((c, r, ic, s) for c in CATS for r in ("foo", "o", "^x") for ic in (False, True) for s in (None, ("title",), ("missing", "title")))
    _G["alphas"] = {"full432": full, "small24": small, "mid72": mid, "sel24": sel24, "tiny9": tiny9}


def run(ctx):
    _cfg(ctx)
    units = [("u", None), ("t", None), ("r", ((_G["alphas"]["full432"][0],), "full432", 0))]
    for ch in chunked(_G["alphas"]["full432"], 8):
        units.append(("r", (tuple(ch), "full432", 1)))
    for ch in chunked(_G["alphas"]["full432"], ctx.workers * 6):
        units.append(("r", (tuple(ch), "full432", 2)))
    for ch in chunked(_G["alphas"]["small24"], 24):
        units.append(("r", (tuple(ch), "small24", 3)))
    for ch in chunked(_G["alphas"]["sel24"], 24):
        units.append(("r", (tuple(ch), "sel24", 3)))
    for ch in chunked(_G["alphas"]["tiny9"], 9):
        units.append(("r", (tuple(ch), "tiny9", 4)))
    if ctx.thorough:
        for ch in chunked(_G["alphas"]["mid72"], 72):
            units.append(("r", (tuple(ch), "mid72", 3)))
    agg = Agg()
    for r in ctx.pmap(_dispatch, units):
        agg.add(r)
    ctx.selfcheck(agg.nontrivial > 0, "no non-trivial rule list")
    return agg


def run_case(ctx, case):
    _cfg(ctx)
    emb = Emb(ctx.base, 1_000_000)
    if case["kind"] == "rules":
        rules = tuple((tuple(r[0]), r[1], r[2], None if r[3] is None else tuple(r[3])) for r in case["rules"])
        probs = check_rules(emb, rules)
        return {"rules": rules, "violations": [list(p) for p in probs]}
    r = (_unit_urls if case["kind"] == "urls" else _unit_titles)(None)
    return {"violations": [[v["key"], v["what"]] for v in r["violations"]]}
