"""Explorer K shared by C06 (crash prefix / bounded tail) and C18 (age-based flush).

BFS over write/read/bucket/clock histories of the REAL file-backed stores; at
every SQL statement of the last operation of each history and at its return a
crash image of the database files is opened the way a restarted process would
and compared with the prefix-closed chain of model states."""
import json
import os
import signal
import time
from datetime import datetime, timedelta, timezone

from aw_core.models import Event
from mc import engine
from mc.core import Agg, Unit
from mc.drivers import crash as K
from mc.drivers import stores as S

T0 = datetime(2019, 3, 3, 3, 3, 3, tzinfo=timezone.utc)
CREATED = datetime(2019, 1, 1, tzinfo=timezone.utc)
NEVER = 987654321
_G = {}

EVENT_WRITES = ("ins1", "bulk2", "bulk49", "bulk50", "bulk51", "mix", "ups", "ups2", "rep", "repl", "del", "bulk49B2", "bulk130")
SINGLE_EVENT_WRITES = ("ins1", "rep", "repl", "del", "insB2", "ups")
BUCKET_OPS = ("mkB2", "updB2", "delB2", "updB1")
READS = ("get", "get_id", "count")
FAULT_OPS = ("delB2x", "updB2x", "staleB2bulk", "badbulk")  # operations that must raise and change nothing
SINGLE_OR_BUCKET = ("ins1", "rep", "repl", "del", "mkB2", "updB2", "delB2", "updB1", "insB2")


class Model:
    """chain of state signatures; state = multiset of items (see crash.dump_image)"""

    def __init__(self):
        self.items = {}  # item -> multiplicity (current state)
        self.sig = 0
        self.chain = [0]  # signatures S_0 .. S_n
        self.op_start = 0
        self.serial = 0
        self.events = {"B1": [], "B2": []}  # live events: dict(serial, id, item)
        self.meta = {}

    def _add(self, item):
        self.items[item] = self.items.get(item, 0) + 1
        self.sig = (self.sig + K.item_sig(item)) & ((1 << 80) - 1)

    def _rm(self, item):
        self.items[item] -= 1
        if not self.items[item]:
            del self.items[item]
        self.sig = (self.sig - K.item_sig(item)) & ((1 << 80) - 1)

    def write(self):
        """mark the end of one elementary write"""
        self.chain.append(self.sig)

    @property
    def n(self):
        return len(self.chain) - 1

    def new_event(self, bucket):
        self.serial += 1
        ts = T0 + timedelta(seconds=self.serial)
        e = Event(timestamp=ts, duration=timedelta(milliseconds=self.serial % 7), data={"n": self.serial})
        item = ("ev", bucket, S.us_of(e.timestamp), S.dus_of(e.duration), S.canon_data(e.data))
        return e, item


def bucket_kwargs(bid, ver=0):
    return dict(type=f"type-{bid}-{ver}", client=f"client-{bid}", hostname=f"host-{bid}", created=CREATED, name=f"name-{bid}", data={"v": ver})


def bk_item(bid, kw):
    return ("bk", bid, kw["type"], kw["client"], kw["hostname"], S.us_of(kw["created"]), kw["name"], S.canon_data(kw["data"]))


class World:
    def __init__(self, backend, wdir, lazy=True):
        self.backend = backend
        K.VNOW[0] = 0.0
        kw = {}
        self.ds = S.fresh(backend, wdir, name="k")
        self.path = self.ds._verif_path
        self.tracer = K.Tracer(self.ds)
        self.m = Model()
        self.last_flush = 0.0
        self.seen_commits = 0
        self.k = 0
        self.staleB2 = None
        # initial state: bucket B1 with two single-inserted events (ids known), all flushed by a read
        kwb = bucket_kwargs("B1")
        self.ds.create_bucket("B1", **kwb)
        self.m.meta["B1"] = kwb
        self.m._add(bk_item("B1", kwb))
        self.m.write()
        for _ in range(_G.get("seed_events", 2)):
            self._ins1("B1")
        if _G.get("seed_B2"):
            # a second bucket that already holds many events (bucket-level operations on big buckets)
            self.apply("mkB2")
            self.apply(f"bulk{_G['seed_B2']}B2")
        self.ds["B1"].get(1)
        self.k = self.m.n
        self.m.op_start = self.m.n

    # ---- elementary operations on store + model -------------------------
    def _ins1(self, b):
        e, item = self.m.new_event(b)
        r = self.ds[b].insert(e)
        self.m._add(item)
        self.m.write()
        self.m.events[b].append({"serial": self.m.serial, "id": r.id if r is not None else None, "item": item})

    def known(self, b="B1"):
        return [x for x in self.m.events[b] if x["id"] is not None]

    def enabled(self, alphabet):
        ops = []
        kn = len(self.known())
        live = len(self.m.events["B1"])
        for op in alphabet:
            if op in ("mix", "rep", "del", "get_id", "ups") and kn == 0:
                continue
            if op == "ups2" and kn < 2:
                continue
            if op == "repl" and live == 0:
                continue
            if op == "mkB2" and "B2" in self.m.meta:
                continue
            if op in ("updB2", "delB2", "insB2") and "B2" not in self.m.meta:
                continue
            if op == "insB2" and len(self.m.events["B2"]) >= 1:
                continue
            if op == "bulk49B2" and ("B2" not in self.m.meta or len(self.m.events["B2"]) >= 50):
                continue
            if op in ("delB2x", "updB2x") and "B2" in self.m.meta:
                continue
            if op == "staleB2bulk" and ("B2" in self.m.meta or self.staleB2 is None):
                continue
            ops.append(op)
        return ops

    def apply(self, op):
        m, ds = self.m, self.ds
        m.op_start = m.n
        if op == "ins1":
            self._ins1("B1")
        elif op == "insB2":
            self._ins1("B2")
        elif op.startswith("bulk"):
            # bulk<N> into B1, bulk<N>B2 into the second bucket (seeded: buffered statements counted per
            # bucket -- the bound is on the database, so writes must alternate between buckets)
            bk = "B2" if op.endswith("B2") else "B1"
            n = int(op[4:-2] if bk == "B2" else op[4:])
            evs, items = [], []
            for _ in range(n):
                e, it = m.new_event(bk)
                evs.append(e)
                items.append(it)
            ds[bk].insert(evs)
            for it in items:
                m._add(it)
                m.write()
                m.events[bk].append({"serial": json.loads(it[4])["n"], "id": None, "item": it})
        elif op == "mix":
            tgt = self.known()[0]
            e1, it1 = m.new_event("B1")
            e1.id = tgt["id"]
            e2, it2 = m.new_event("B1")
            ds["B1"].insert([e1, e2])
            m._rm(tgt["item"])
            m._add(it1)
            m.write()
            tgt["item"], tgt["serial"] = it1, json.loads(it1[4])["n"]
            m._add(it2)
            m.write()
            m.events["B1"].append({"serial": json.loads(it2[4])["n"], "id": None, "item": it2})
        elif op in ("ups", "ups2"):
            tgts = self.known()[: 1 if op == "ups" else 2]
            evs, its = [], []
            for t in tgts:
                e, it = m.new_event("B1")
                e.id = t["id"]
                evs.append(e)
                its.append(it)
            ds["B1"].insert(evs)
            for t, it in zip(tgts, its):
                m._rm(t["item"])
                m._add(it)
                m.write()
                t["item"], t["serial"] = it, json.loads(it[4])["n"]
        elif op == "rep":
            tgt = self.known()[0]
            e, it = m.new_event("B1")
            ds["B1"].replace(tgt["id"], e)
            m._rm(tgt["item"])
            m._add(it)
            m.write()
            tgt["item"], tgt["serial"] = it, json.loads(it[4])["n"]
        elif op == "repl":
            tgt = max(m.events["B1"], key=lambda x: x["serial"])
            e, it = m.new_event("B1")
            ds["B1"].replace_last(e)
            m._rm(tgt["item"])
            m._add(it)
            m.write()
            tgt["item"], tgt["serial"] = it, json.loads(it[4])["n"]
        elif op == "del":
            tgt = self.known()[0]
            ds["B1"].delete(tgt["id"])
            m._rm(tgt["item"])
            m.write()
            m.events["B1"].remove(tgt)
        elif op == "delx":
            ds["B1"].delete(NEVER)
        elif op == "get":
            ds["B1"].get(1)
        elif op == "get_id":
            ds["B1"].get_by_id(self.known()[0]["id"])
        elif op == "count":
            ds["B1"].get_eventcount()
        elif op == "delB2x":
            ds.delete_bucket("B2")
        elif op == "updB2x":
            ds.update_bucket("B2", type_id="nope")
        elif op == "badbulk":
            # a bulk insert into B1 that is rejected (event data that cannot be serialised)
            e1, _ = m.new_event("B1")
            e2, _ = m.new_event("B1")
            e2.data["bad"] = object()
            ds["B1"].insert([e1, e2])
        elif op == "staleB2bulk":
            e1, _ = m.new_event("B2")
            e2, _ = m.new_event("B2")
            self.staleB2.insert([e1, e2])
        elif op == "mkB2":
            kw = bucket_kwargs("B2")
            ds.create_bucket("B2", **kw)
            if self.staleB2 is None:
                self.staleB2 = ds["B2"]
            m.meta["B2"] = kw
            m._add(bk_item("B2", kw))
            m.write()
        elif op in ("updB2", "updB1"):
            b = op[3:]
            old = m.meta[b]
            m.serial += 1
            new = dict(old, type=f"type-{b}-{m.serial}", data={"v": m.serial})
            ds.update_bucket(b, type_id=new["type"], data=new["data"])
            m._rm(bk_item(b, old))
            m._add(bk_item(b, new))
            m.meta[b] = new
            m.write()
        elif op == "delB2":
            ds.delete_bucket("B2")
            for x in m.events["B2"]:
                m._rm(x["item"])
            if m.events["B2"]:
                m.write()  # all events of the bucket removed (one statement)
            m.events["B2"] = []
            m._rm(bk_item("B2", m.meta.pop("B2")))
            m.write()
        elif op.startswith("clock+"):
            K.VNOW[0] += float(op[6:])
        else:
            raise ValueError(op)

    # ---- observation -----------------------------------------------------
    def locate(self, sig):
        """index k >= self.k with chain[k] == sig (largest), or None"""
        ch = self.m.chain
        for k in range(len(ch) - 1, self.k - 1, -1):
            if ch[k] == sig:
                return k
        return None

    def note_commits(self):
        if self.tracer.commits != self.seen_commits:
            self.seen_commits = self.tracer.commits
            self.last_flush = K.VNOW[0]

    def close(self):
        self.tracer.detach()


def replay(backend, wdir, hist):
    w = World(backend, wdir)
    for op in hist:
        try:
            w.apply(op)
        except Exception:
            if op not in FAULT_OPS:
                raise
        w.note_commits()
    return w


def abstract(w, imager):
    """canonical state of explorer K: hidden object state (uncommitted counter etc.), pending
    elementary writes, elapsed virtual time since the last flush (capped), enabledness classes"""
    sig, _ = imager.image()
    k = w.locate(sig)
    pending = None if k is None else w.m.n - k
    if k is not None:
        w.k = k
        # NOTE: "nothing pending" is NOT a flush: the statement measures from the previous flush, so a
        # write arriving on an idle store with an empty buffer > 10 s after the last COMMIT must itself
        # be durable (seeded C18-7 restarted the age whenever the buffer was empty; an earlier version
        # of this harness treated an empty buffer as a flush and could not see it)
    el = K.VNOW[0] - w.last_flush
    # elapsed class: exact seconds up to 12; idle periods of whole days are kept apart together
    # with their remainder (a seeded `timedelta.seconds > 10` test forgets the days)
    elc = min(int(el), 12) if el < 86400 else ("days", min(int(el % 86400), 12))
    return (
        S.hidden_state(w.ds) if w.backend == "sqlite" else None,
        pending,
        elc,
        min(len(w.known()), 2),  # exact up to the number of seeded events: enabledness of del/rep/mix
        min(len(w.m.events["B1"]), 2),
        ("B2" in w.m.meta, len(w.m.events["B2"]), w.staleB2 is not None),
        bool(getattr(w.tracer.conn, "in_transaction", False)),  # an open transaction is state too (left open by a failed op?)
    )


def run_last_op(w, op, imager, u, oracle):
    """apply `op` with crash images at every statement and at return; -> list of problems"""
    probs = []
    m = w.m
    backend = w.backend
    n_before = m.n
    k_before = w.k
    flush_before = w.last_flush
    points = []

    def hook(stmt):
        sig, items = imager.image()
        points.append((stmt.strip()[:30], sig, items))
        u.hist["crash_points_at_statements"] += 1

    w.tracer.hook = hook
    exc = None
    try:
        w.apply(op)
    except Exception as e:
        exc = f"{type(e).__name__}: {e}"
    w.tracer.hook = None
    w.note_commits()
    if op in FAULT_OPS:
        if not exc:
            probs.append(("absent-bucket-op-did-not-raise", f"{op} on a bucket that does not exist returned normally"))
    elif exc:
        return [("raised", f"{op}: {exc}")], None
    sig, items = imager.image()
    points.append(("<return>", sig, items))
    u.hist["crash_points_at_returns"] += 1
    ch = m.chain
    kprev = k_before
    for idx, (stmt, s, its) in enumerate(points):
        # the chain position this image corresponds to; during the op, writes not yet issued cannot be there
        # chain states can recur inside the window (deleting a bucket's only event gives back the
        # state before that event was inserted): at a statement point take the EARLIEST matching
        # state (lenient for split/monotonicity), at the return the LATEST (the op has completed)
        k = None
        cand = range(len(ch) - 1, kprev - 1, -1) if stmt == "<return>" else range(kprev, len(ch))
        for kk in cand:
            if ch[kk] == s:
                k = kk
                break
        if k is None:
            # maybe it went backwards?
            back = [kk for kk in range(0, kprev) if ch[kk] == s]
            if back:
                probs.append(("durability-regressed", f"crash at {stmt!r} (point {idx}) of {op}: image equals state {back[-1]} but state {kprev} was already durable"))
            else:
                probs.append(("image-not-a-prefix", f"crash at {stmt!r} (point {idx}) of {op}: reopened database is not the effect of any prefix of the {m.n} elementary writes; image items {sorted(map(str, its))[:6]}..."))
            continue
        if backend == "sqlite" and op in SINGLE_OR_BUCKET and n_before < k < m.n:
            probs.append(("operation-split", f"crash at {stmt!r} of {op}: image holds {k - n_before} of the {m.n - n_before} elementary writes of this single-event/bucket-level operation"))
        kprev = k
    w.k = kprev
    pending = m.n - w.k
    probs += oracle(w, op, pending, flush_before)
    return probs, pending


def oracle_c06(w, op, pending, flush_before):
    probs = []
    if w.backend == "peewee":
        if pending:
            probs.append(("completed-op-not-durable", f"after {op} returned, {pending} elementary writes are missing from the reopened database"))
        return probs
    if op in BUCKET_OPS or op in ("insB2",) and False:
        if pending:
            probs.append(("bucket-op-not-durable", f"after {op} returned, {pending} elementary writes are missing from the reopened database"))
    if op in READS and pending:
        probs.append(("read-did-not-flush", f"after {op} returned, {pending} writes are still missing"))
    if pending > 64:
        probs.append(("too-many-buffered-writes", f"after {op} returned, {pending} elementary writes (deletions counted) are not durable (> 64)"))
    return probs


def oracle_c18(w, op, pending, flush_before):
    probs = []
    if w.backend != "sqlite":
        return probs
    # previous flush = latest of: flush known before the op, a COMMIT seen during the op (note_commits
    # has run).  A bulk write that flushes after its first part and leaves its second part buffered
    # has data at risk that is 0 s old -- not a violation (an earlier version of this oracle measured
    # from the flush before the op and raised a false alarm on insert_many([upsert, insert])).
    age = K.VNOW[0] - w.last_flush
    if op in SINGLE_EVENT_WRITES:
        # a SINGLE event write must ITSELF be durable when it returns: a commit issued inside the
        # operation but before its own statement (seeded: delete / replace_last flushing first) does
        # not count, so for these the age is measured from the flush known when the op was called
        age = K.VNOW[0] - flush_before
    if (op in EVENT_WRITES or op == "insB2") and age > 11.0 and pending:
        probs.append(("old-write-not-flushed", f"{op} returned {age:.0f} virtual seconds after the previous flush and its write is not durable ({pending} elementary writes pending)"))
    return probs


def make_expand(oracle_name):
    _G["which"] = oracle_name
    return expand


if True:
    def expand(hist):
        oracle_name = _G["which"]
        c = _G["cfg"]
        ctx = _G["ctx"]
        backend = c["backend"]
        u = Unit()
        wdir = ctx.wdir()
        oracle = oracle_c06 if oracle_name == "c06" else oracle_c18
        imager = _G.setdefault(("imager", os.getpid(), backend), None)
        w = replay(backend, wdir, hist)
        imager = K.Imager(backend, w.path, os.path.join(wdir, "img"))
        self_canon = abstract(w, imager)
        ops = w.enabled(c["alphabet"])
        w.close()
        succ = []
        for op in ops:
            w = replay(backend, wdir, hist)
            # bring k / last_flush up to date for the prefix
            abstract(w, imager)
            res = run_last_op(w, op, imager, u, oracle)
            probs, pending = res
            u.transitions += 1
            u.evaluations += 1
            u.traces += 1
            u.hist["op_" + op] += 1
            if pending:
                u.hist["returns_with_pending_writes"] += 1
                u.nontrivial += 1
            if probs:
                for sym, det in probs[:2]:
                    case = {"backend": backend, "history": list(hist), "op": op, "oracle": oracle_name, "seed_events": _G.get("seed_events", 2), "seed_B2": _G.get("seed_B2", 0)}
                    u.violation(f"{backend}:{op_class(op)}:{sym}", f"{backend} history {list(hist)[-12:]} (len {len(hist)}) then {op}: {det}", case, size=len(hist) * 100 + len(op))
            else:
                succ.append((abstract(w, imager), tuple(hist) + (op,)))
            w.close()
        u.extra["images"] = imager.n_images
        if len(hist) == 2:
            u.sample({"backend": backend, "history": list(hist), "ops_applied_from_here": ops, "crash_points": "before every SQL statement of the last op + at its return"}, cap=1)
        r = u.result()
        r.update({"self": self_canon, "succ": succ, "path": tuple(hist)})
        return r


def op_class(op):
    if op.startswith("bulk"):
        return "bulk-insert"
    return op


# ---------------------------------------------------------------------------
# validation of the crash-image method against real process death
def sigkill_validation(ctx, backend, histories):
    """each (history, op, stmt_index): a forked child runs the history, and at the given
    statement of the last op takes the in-process image, then SIGKILLs itself; the parent
    reopens the REAL files and compares.  stmt_index None = os._exit at op return."""
    results = []
    for hist, op, stmt_index in histories:
        wdir = os.path.join(ctx.wdir(), f"kill{len(results)}")
        os.makedirs(wdir, exist_ok=True)
        out = os.path.join(wdir, "inproc.json")
        pid = os.fork()
        if pid == 0:
            try:
                w = replay(backend, wdir, hist)
                imager = K.Imager(backend, w.path, os.path.join(wdir, "img"))
                cnt = [0]

                def hook(stmt):
                    if stmt_index is not None and cnt[0] == stmt_index:
                        sig, items = imager.image()
                        with open(out, "w") as f:
                            json.dump({"sig": str(sig), "stmt": stmt[:40], "path": w.path}, f)
                            f.flush()
                            os.fsync(f.fileno())
                        os.kill(os.getpid(), signal.SIGKILL)
                    cnt[0] += 1

                w.tracer.hook = hook
                w.apply(op)
                w.tracer.hook = None
                sig, items = imager.image()
                with open(out, "w") as f:
                    json.dump({"sig": str(sig), "stmt": "<exit without shutdown>", "path": w.path}, f)
                    f.flush()
                    os.fsync(f.fileno())
            finally:
                os._exit(0)
        os.waitpid(pid, 0)
        if not os.path.exists(out):
            results.append((hist, op, stmt_index, None, "child produced no image (statement index beyond the op's statements)"))
            continue
        info = json.load(open(out))
        S.close_all()
        items = K.dump_image(backend, info["path"]) if backend == "peewee" else _reopen_real(info["path"])
        real = K.sig_of(items)
        results.append((hist, op, stmt_index, str(real) == info["sig"], info["stmt"]))
    return results


def _reopen_real(path):
    return K.dump_image("sqlite", path)


def run_k(ctx, which, configs):
    from mc.props.c02 import _merge

    _G["ctx"] = ctx
    K.own_clock()
    total = Agg()
    per = {}
    # self-check: the clock is owned
    ds = S.fresh("sqlite", ctx.wdir(), name="clockcheck")
    ok, msg = K.clock_owned_selfcheck(ds)
    ctx.selfcheck(ok, f"virtual clock not owned: {msg}")
    S.close_all()
    for cfg in configs:
        _G["cfg"] = cfg
        _G["seed_events"] = cfg.get("seed_events", 2)
        _G["seed_B2"] = cfg.get("seed_B2", 0)
        agg, seen = engine.bfs(ctx, make_expand(which), [()], label=cfg["name"], max_states=cfg.get("max_states", 30000), cap_s=cfg.get("cap_s"), max_depth=cfg.get("max_depth"))
        if cfg.get("depth_is_the_bound") and all("depth cap" in c for c in agg.caps):
            # one-operation configurations: the depth bound is the stated bound, not a cap that was hit
            agg.exhaustive = True
            agg.caps = []
        per[cfg["name"]] = {"states": agg.states, "transitions": agg.transitions, "max_depth": agg.max_depth, "crash_points": agg.hist.get("crash_points_at_statements", 0) + agg.hist.get("crash_points_at_returns", 0)}
        _merge(total, agg)
    total.extra["per_config"] = per
    # determinism: one history replayed twice gives identical observations
    _G["cfg"] = configs[0]
    e = make_expand(which)
    h = ("ins1", "bulk2", "clock+11", "ins1")
    a, b = e(h), e(h)
    ctx.selfcheck(a["self"] == b["self"] and a["succ"] == b["succ"], "replaying one history twice gave different observations")
    # crash-image model validated against real SIGKILL / exit without shutdown
    vals = []
    for backend in ("sqlite", "peewee"):
        hs = [
            (("ins1",), "ins1", 0),
            (("ins1", "ins1"), "bulk51", 3),
            (("ins1",), "bulk51", 60),
            (("ins1",), "mkB2", 1),
            (("mkB2", "insB2"), "delB2", 1),
            (("ins1",), "rep", 0),
            (("ins1",), "del", 0),
            (("ins1",), "get", 0),
            (("ins1", "bulk2"), "ins1", None),
            (("bulk49",), "bulk2", None),
            (("ins1",), "updB1", 1),
            (("ins1",), "mix", 1),
        ]
        vals += [(backend,) + r for r in sigkill_validation(ctx, backend, hs)]
    bad = [v for v in vals if v[4] is False]
    ctx.selfcheck(not bad, f"crash-image model disagrees with a real SIGKILL: {bad[:2]}")
    total.traces += sum(1 for v in vals if v[4] is True)
    total.extra["sigkill_validated_points"] = sum(1 for v in vals if v[4] is True)
    total.extra["sigkill_points_not_reached"] = sum(1 for v in vals if v[4] is None)
    total.extra["crash_points"] = total.hist.get("crash_points_at_statements", 0) + total.hist.get("crash_points_at_returns", 0)
    K.release_clock()
    return total


def replay_case(ctx, case):
    _G["ctx"] = ctx
    K.own_clock()
    backend = case["backend"]
    _G["seed_events"] = case.get("seed_events", 2)
    _G["seed_B2"] = case.get("seed_B2", 0)
    w = replay(backend, ctx.wdir(), tuple(case["history"]))
    imager = K.Imager(backend, w.path, os.path.join(ctx.wdir(), "img"))
    abstract(w, imager)
    u = Unit()
    probs, pending = run_last_op(w, case["op"], imager, u, oracle_c06 if case.get("oracle") == "c06" else oracle_c18)
    return {"history": case["history"], "op": case["op"], "pending_after_return": pending, "elementary_writes": w.m.n, "virtual_now": K.VNOW[0], "violations": [list(p) for p in probs]}
