"""C03 -- time-window reads return exactly the intersecting events, newest first, limited.

Explorer L: every bucket content of <= n events on a small time lattice x every
window (open-ended, zero-width, sub-millisecond shifted, tz-offset) x limits,
plus get_eventcount, on each real backend, in three embeddings (coarse 1 s,
fine 1 ms with sub-ms shifted edges, day 6 h crossing midnight with 24 h events).
Oracle: integer interval arithmetic with the statement's 2 ms edge tolerance."""
import itertools
import json
from datetime import timedelta, timezone

from mc.core import Agg, Unit
from mc.drivers import stores as S
from mc.lattice import Emb, chunked

DELTA = 2000  # microseconds: "only events within about 2 ms of an edge may go either way"
TZS = [timezone.utc, timezone(timedelta(hours=5, minutes=30)), timezone(-timedelta(hours=8))]


def _embs(ctx):
    day_base = ctx.base.replace(hour=18, minute=0, second=0, microsecond=0)
    q = [
        dict(name="coarse", unit_us=1_000_000, base=ctx.base, starts=range(0, 6), durs=(0, 1, 2, 3), n=2, wr=range(-1, 8), shifts=[(0, 0)], limits=(-1, -2, -7, 0, 1, 2, 5)),
        dict(name="fine", unit_us=1_000, base=ctx.base, starts=range(0, 4), durs=(0, 1, 2), n=2, wr=range(-3, 7), shifts=[(0, 0), (1, 999), (500, 500), (999, 1)], limits=(-1, 1)),
        dict(name="day", unit_us=6 * 3600 * 1_000_000, base=day_base, starts=range(0, 5), durs=(0, 1, 4), n=2, wr=range(-1, 7), shifts=[(0, 0)], limits=(-1, 1)),
        # 1 ms lattice straddling a whole-second boundary (.996 .. 1.004 s): window ends in the last
        # millisecond of a second exercise the carry of the end round-up (a seeded change dropped it)
        dict(name="carry", unit_us=1_000, base=ctx.base + timedelta(milliseconds=996), starts=range(0, 5), durs=(0, 1, 3), n=2, wr=range(-2, 8), shifts=[(0, 0), (500, 999)], limits=(-1, 1)),
    ]
    if ctx.thorough:
        q = [
            dict(name="coarse", unit_us=1_000_000, base=ctx.base, starts=range(0, 6), durs=(0, 1, 2, 3), n=3, wr=range(-1, 8), shifts=[(0, 0)], limits=(-1, -2, -7, 0, 1, 2, 3, 5)),
            dict(name="fine", unit_us=1_000, base=ctx.base, starts=range(0, 4), durs=(0, 1, 2), n=3, wr=range(-3, 7), shifts=[(0, 0), (1, 999), (500, 500), (999, 1), (999, 999), (1, 1)], limits=(-1, 1, 2)),
            dict(name="fine3", unit_us=3_000, base=ctx.base, starts=range(0, 4), durs=(0, 1, 2), n=2, wr=range(-2, 7), shifts=[(0, 0), (1, 999), (1500, 2500), (2999, 1)], limits=(-1, 1)),
            dict(name="day", unit_us=6 * 3600 * 1_000_000, base=day_base, starts=range(0, 5), durs=(0, 1, 3, 4), n=3, wr=range(-1, 7), shifts=[(0, 0)], limits=(-1, 1, 2)),
            dict(name="carry", unit_us=1_000, base=ctx.base + timedelta(milliseconds=996), starts=range(0, 6), durs=(0, 1, 3), n=3, wr=range(-2, 9), shifts=[(0, 0), (500, 999), (999, 1)], limits=(-1, 1, 2)),
            dict(name="carry-minute", unit_us=1_000, base=ctx.base.replace(second=59) + timedelta(milliseconds=997), starts=range(0, 4), durs=(0, 2), n=2, wr=range(-1, 6), shifts=[(0, 0), (999, 999)], limits=(-1, 1)),
        ]
    return q


BOUNDS = {
    "quick": "contents: multisets of <=2 events, each built by inserts and (coarse/fine) also through replace-by-id in reversed order; coarse(1 s): starts 0..5 x durs {0,1,2,3}, windows over -1..7 U {open}, limits {-1,0,1,2,5}; fine(1 ms): starts 0..3 x durs {0,1,2}, windows -3..6 with 4 sub-ms edge shifts; day(6 h from 18:00): starts 0..4 x durs {0,6h,24h}; carry(1 ms lattice from xx.996 s across the second boundary); every window also via get_eventcount; window arguments cycle through UTC/+05:30/-08:00",
    "thorough": "as quick with multisets of <=3 events, more limits and shifts, and a 3 ms embedding",
}
RULE = (
    "every multiset of <=n lattice events is stored in a fresh bucket of each backend and read through every window x limit and counted; "
    "a (content, window) case is non-trivial when the window has at least one finite edge and the content has an event that straddles an edge, nests in / overlaps another event, or is zero-length"
)
ASSUMPTIONS = [
    "events within 2 ms of a window edge may be returned or not (statement's tolerance); touching events are therefore free",
    "a backend may return the stored event unchanged or cut to the (ms-rounded) window; anything else is a violation",
    "events longer than 24 h are not generated (statement restricts to events up to 24 h)",
]
_G = {}


def _windows(emb):
    vals = [None] + list(emb["wr"])
    out = []
    for a in vals:
        for b in vals:
            if a is not None and b is not None and a > b:
                continue
            out.append((a, b))
    return out


def _contents(emb):
    alpha = [(s, d) for s in emb["starts"] for d in emb["durs"]]
    out = []
    for k in range(0, emb["n"] + 1):
        out.extend(itertools.combinations_with_replacement(alpha, k))
    return out


def classify(s, t, a, b):
    """'in' must be returned, 'out' must not, 'free' either (a,b in us or None)"""
    if (a is not None and t < a - DELTA) or (b is not None and s > b + DELTA):
        return "out"
    if (a is None or t >= a + DELTA) and (b is None or s <= b - DELTA):
        return "in"
    return "free"


def check_read(stored, a, b, limit, got):
    """stored: {id: (s,t,data)}; got: list of (id, s, d, data) in returned order
    -> list of (symptom, detail)"""
    probs = []
    cls = {i: classify(v[0], v[1], a, b) for i, v in stored.items()}
    MI = [i for i, c in cls.items() if c == "in"]
    seen = set()
    for g in got:
        i = g[0]
        if i not in stored:
            probs.append(("unknown-id", f"returned id {i} not in bucket"))
            continue
        if i in seen:
            probs.append(("duplicate", f"id {i} returned twice"))
        seen.add(i)
        if cls[i] == "out":
            probs.append(("returned-outside-window", f"id {i} [{stored[i][0]},{stored[i][1]}] lies outside window [{a},{b}]"))
        s, t, data = stored[i]
        gs, gt = g[1], g[1] + g[2]
        # either the stored event unchanged, or the stored event CUT TO THE WINDOW: an edge that sticks
        # out of the window by more than the tolerance must then be cut (a seeded change cut the start
        # but left the end of an event that sticks out on both sides)
        unchanged = (gs, gt) == (s, t)
        ok_s = (gs == s and not (a is not None and s < a - DELTA)) or (a is not None and gs > s and abs(gs - a) <= DELTA)
        ok_t = (gt == t and not (b is not None and t > b + DELTA)) or (b is not None and gt < t and abs(gt - b) <= DELTA)
        if not ((unchanged or (ok_s and ok_t)) and g[3] == data):
            probs.append(("altered-event", f"id {i} stored [{s},{t}] {data} returned [{gs},{gt}] {g[3]} for window [{a},{b}]"))
    ts = [g[1] for g in got]
    if any(ts[k] < ts[k + 1] for k in range(len(ts) - 1)):
        probs.append(("not-sorted-desc", f"timestamps {ts}"))
    if limit == 0:
        if got:
            probs.append(("limit-zero-returned", f"{len(got)} events for limit 0"))
        return probs
    if limit < 0:
        miss = [i for i in MI if i not in seen]
        if miss:
            probs.append(("missing-intersecting", f"ids {miss} {[stored[i][:2] for i in miss]} intersect window [{a},{b}] but were not returned"))
        return probs
    if len(got) > limit:
        probs.append(("limit-exceeded", f"{len(got)} > limit {limit}"))
    if len(got) < min(limit, len(MI)):
        probs.append(("limit-too-few", f"{len(got)} returned, limit {limit}, {len(MI)} intersecting"))
    known = [g[0] for g in got if g[0] in stored]
    if known:
        oldest = min(stored[i][0] for i in known)
        newer = [i for i in MI if i not in seen and stored[i][0] > oldest]
        if newer:
            probs.append(("limit-not-newest", f"limit {limit}: ids {newer} are newer than the oldest returned and intersect window [{a},{b}] but are missing"))
    return probs


def _nontrivial(stored, a, b):
    if a is None and b is None:
        return False
    vs = list(stored.values())
    for s, t, _ in vs:
        if s == t:
            return True
        if (a is not None and s < a < t) or (b is not None and s < b < t):
            return True
    for x, y in itertools.combinations(vs, 2):
        if min(x[1], y[1]) > max(x[0], y[0]):
            return True
    return False


def run_content(ds, backend, embd, content, u, bid="w", via_replace=False):
    """via_replace: the same bucket content is reached through replace-by-id (events are first
    inserted with the instants of the REVERSED content, then each is rewritten to its final value),
    so that storage order and timestamp order differ -- a read must not depend on how the content
    came about (a seeded 'keep the list sorted on insert, never re-sort' change only showed after a replace)"""
    emb = Emb(embd["base"], embd["unit_us"])
    if bid in ds.buckets():
        ds.delete_bucket(bid)
    S.mk_bucket(ds, bid)
    b = ds[bid]
    stored = {}
    ids = []
    # reads interleaved with the writes that build the content (an empty read first): whatever a
    # read may remember (counts, row keys, last results) has to be kept right by every later write
    b.get(-1)
    b.get_eventcount()
    for n, (s, d) in enumerate(content):
        if via_replace:
            s0, d0 = content[len(content) - 1 - n]
            ids.append(b.insert(emb.ev(s0, d0, {"n": -1})).id)
        else:
            ids.append(b.insert(emb.ev(s, d, {"n": n})).id)
        if n == 0:
            b.get(1, emb.t(-1), emb.t(9))
            b.get_eventcount(emb.t(-1), emb.t(9))
    if via_replace and content:
        # ... and a write that is later undone: an extra event, read, then deleted again
        extra = b.insert(emb.ev(content[0][0], 1, {"n": -2}))
        b.get_eventcount()
        b.get(-1)
        b.delete(extra.id)
    for n, (s, d) in enumerate(content):
        if via_replace:  # all placeholders are in place before the first one is rewritten
            b.replace(ids[n], emb.ev(s, d, {"n": n}))
        ee = emb.ev(s, d, {"n": n})
        stored[ids[n]] = (S.us_of(ee.timestamp), S.us_of(ee.timestamp) + S.dus_of(ee.duration), S.canon_data(ee.data))
    base = {t[0]: (t[1], t[1] + t[2], t[3]) for t in S.dump_bucket(ds, bid)}
    if base != stored or len(stored) != len(content):
        # an unbounded read (no start, no end, no limit) is a window read too: it must return
        # exactly what was inserted.  (An earlier version skipped such contents as "C01/C02's
        # subject" and then failed its own self-check instead of reporting a seeded stale
        # read-side cache.)  The windowed oracle below needs a sane baseline, so stop here.
        u.hist["baseline_mismatch"] += 1
        case = {"backend": backend, "emb": embd["name"], "unit_us": embd["unit_us"], "base": embd["base"].isoformat(), "content": [list(c) for c in content], "window": [None, None], "shift_us": [0, 0], "tz": 0, "limit": -1, "op": "get"}
        u.violation(f"{backend}:get:unbounded-read-differs-from-inserted", f"{backend}/{embd['name']} content {list(content)} inserted into a fresh bucket: get(-1) returned {sorted(base.values())} expected {sorted(stored.values())}", case, size=len(content) * 1000)
        return
    wi = 0
    for a, bb in _windows(embd):
        for sa, sb in embd["shifts"]:
            wi += 1
            ta = None if a is None else emb.t(a) + timedelta(microseconds=sa)
            tb = None if bb is None else emb.t(bb) + timedelta(microseconds=sb)
            if ta is not None and tb is not None and ta > tb:
                continue
            ua = None if ta is None else S.us_of(ta)
            ub = None if tb is None else S.us_of(tb)
            tz = TZS[wi % 3]
            xa = None if ta is None else ta.astimezone(tz)
            xb = None if tb is None else tb.astimezone(tz)
            case = {"backend": backend, "emb": embd["name"], "unit_us": embd["unit_us"], "base": embd["base"].isoformat(), "content": [list(c) for c in content], "window": [a, bb], "shift_us": [sa, sb], "tz": wi % 3, "via_replace": via_replace}
            nt = _nontrivial(stored, ua, ub)
            if nt:
                u.nontrivial += 1
            u.states += 1
            for limit in embd["limits"]:
                u.transitions += 1
                u.evaluations += 1
                try:
                    got = [S.ev_tuple(e) for e in b.get(limit, xa, xb)]
                    probs = check_read(stored, ua, ub, limit, got)
                except Exception as e:
                    probs = [("raised-" + type(e).__name__, str(e))]
                    got = None
                for sym, det in probs[:2]:
                    u.hist["viol_" + sym] += 1
                    u.violation(f"{backend}:get:{sym}", f"{backend}/{embd['name']} content {list(content)} window ({a},{bb})+{(sa, sb)}us limit {limit}: {det}", dict(case, limit=limit, op="get"), size=len(content) * 1000 + len(json.dumps(case)))
            u.transitions += 1
            u.evaluations += 1
            try:
                n = b.get_eventcount(xa, xb)
                cls = [classify(v[0], v[1], ua, ub) for v in stored.values()]
                lo, hi = cls.count("in"), len(cls) - cls.count("out")
                probs = []
                if n < lo:
                    probs.append(("count-too-low", f"count {n} < {lo} events that intersect the window"))
                if n > hi:
                    probs.append(("count-too-high", f"count {n} > {hi} events not outside the window"))
            except Exception as e:
                probs = [("raised-" + type(e).__name__, str(e))]
            for sym, det in probs:
                u.hist["viol_" + sym] += 1
                u.violation(f"{backend}:count:{sym}", f"{backend}/{embd['name']} content {list(content)} window ({a},{bb})+{(sa, sb)}us: {det}", dict(case, op="count"), size=len(content) * 1000 + len(json.dumps(case)))


def _unit(args):
    backend, ei, contents = args
    ctx = _G["ctx"]
    embd = _G["embs"][ei]
    u = Unit()
    ds = S.fresh(backend, ctx.wdir())
    S.mk_bucket(ds, "other")
    e0 = Emb(embd["base"], embd["unit_us"])
    ds["other"].insert([e0.ev(s, 1, "o") for s in range(-1, 7)])
    for content in contents:
        run_content(ds, backend, embd, content, u)
        u.traces += 1
        if len(content) >= 2 and len(set(content)) > 1 and embd["name"] in ("coarse", "fine"):
            run_content(ds, backend, embd, content, u, via_replace=True)
            u.traces += 1
    if contents:
        u.sample({"backend": backend, "embedding": embd["name"], "content": [list(c) for c in contents[-1]], "windows": len(_windows(embd)) * len(embd["shifts"]), "limits": list(embd["limits"])}, cap=1)
    S.close_all()
    return u.result()


def run(ctx):
    _G["ctx"] = ctx
    embs = _embs(ctx)
    _G["embs"] = embs
    units = []
    sizes = {}
    for ei, embd in enumerate(embs):
        cs = _contents(embd)
        sizes[embd["name"]] = {"contents": len(cs), "windows": len(_windows(embd)) * len(embd["shifts"]), "limits": len(embd["limits"])}
        for backend in S.BACKENDS:
            nchunks = ctx.workers * (4 if backend == "peewee" else 1)
            for ch in chunked(cs, nchunks):
                units.append((backend, ei, ch))
    units.sort(key=lambda x: (x[0] != "peewee",))
    agg = Agg()
    for r in ctx.pmap(_unit, units):
        agg.add(r)
    agg.extra["space"] = sizes
    ctx.selfcheck(agg.nontrivial > 0, "no non-trivial (content, window) case")
    return agg


def run_case(ctx, case):
    from datetime import datetime

    _G["ctx"] = ctx
    embd = dict(name=case["emb"], unit_us=case["unit_us"], base=datetime.fromisoformat(case["base"]))
    emb = Emb(embd["base"], embd["unit_us"])
    backend = case["backend"]
    ds = S.fresh(backend, ctx.wdir())
    S.mk_bucket(ds, "w")
    b = ds["w"]
    stored = {}
    ids = []
    cont = [tuple(c) for c in case["content"]]
    for n, (s, d) in enumerate(cont):
        if case.get("via_replace"):
            s0, d0 = cont[len(cont) - 1 - n]
            ids.append(b.insert(emb.ev(s0, d0, {"n": -1})).id)
        else:
            ids.append(b.insert(emb.ev(s, d, {"n": n})).id)
    for n, (s, d) in enumerate(cont):
        if case.get("via_replace"):
            b.replace(ids[n], emb.ev(s, d, {"n": n}))
        ee = emb.ev(s, d, {"n": n})
        stored[ids[n]] = (S.us_of(ee.timestamp), S.us_of(ee.timestamp) + S.dus_of(ee.duration), S.canon_data(ee.data))
    a, bb = case["window"]
    sa, sb = case["shift_us"]
    ta = None if a is None else emb.t(a) + timedelta(microseconds=sa)
    tb = None if bb is None else emb.t(bb) + timedelta(microseconds=sb)
    tz = TZS[case["tz"]]
    xa = None if ta is None else ta.astimezone(tz)
    xb = None if tb is None else tb.astimezone(tz)
    ua = None if ta is None else S.us_of(ta)
    ub = None if tb is None else S.us_of(tb)
    if case["op"] == "get":
        got = [S.ev_tuple(e) for e in b.get(case["limit"], xa, xb)]
        probs = check_read(stored, ua, ub, case["limit"], got)
        return {"stored": {str(k): v for k, v in stored.items()}, "window_us": [ua, ub], "returned": got, "violations": [list(p) for p in probs]}
    n = b.get_eventcount(xa, xb)
    cls = [classify(v[0], v[1], ua, ub) for v in stored.values()]
    lo, hi = cls.count("in"), len(cls) - cls.count("out")
    probs = []
    if n < lo:
        probs.append(["count-too-low", f"{n} < {lo}"])
    if n > hi:
        probs.append(["count-too-high", f"{n} > {hi}"])
    return {"stored": {str(k): v for k, v in stored.items()}, "window_us": [ua, ub], "count": n, "bounds": [lo, hi], "violations": probs}
