"""C13 -- events normalise to UTC milliseconds and survive JSON round trips.

Explorer L on a numeric grid: ALL 10^6 microsecond values of one second through
the datetime path (and the ISO-string path), anchor instants 1970..2100 incl.
float binade edges x UTC offsets in [-14h,+14h] x 5 input representations x
constructor/setter paths; duration grid (int, float, timedelta) compared with
exact rational arithmetic; JSON form validated against the published schema and
round-tripped for a data catalogue and several id kinds."""
import json
from datetime import datetime, timedelta, timezone, tzinfo
from fractions import Fraction

import jsonschema
from aw_core.models import Event
from aw_core.schema import get_json_schema
from mc.core import Agg, Unit
from mc.drivers import stores as S
from mc.lattice import chunked

UTC = timezone.utc
OFFSETS_MIN = (-14 * 60, -9 * 60 - 30, -1, 0, 5 * 60 + 45, 14 * 60)
BOUNDS = {
    "quick": {"microseconds": "all 10^6 values at one base second via datetime and via ISO string (alternating UTC and +05:45)", "anchors": "noon of one day per year 1970..2100 + 2^k s (k=20..31) and +-1 + 2^49,2^50,2^51 us binade edges and neighbours + 2100-12-31T23:59:59", "offsets_min": list(OFFSETS_MIN), "representations": ["aware datetime", "isoformat T", "isoformat space", "Z / +00:00 forms"], "paths": ["constructor", "timestamp setter"], "dst_fold": "aware datetimes in a zone with a repeated hour (fold 0/1) around the switch", "durations": "ints 0..3 + 86400 + 30 d; timedeltas at us granularity; floats k*1e-6 for k<=2000 and a catalogue"},
    "thorough": {"microseconds": "all 10^6 via datetime AND via ISO string, at two base seconds", "rest": "as quick"},
}
RULE = (
    "numeric grid as in bounds; every case is an Event construction (or attribute assignment) compared with integer/rational arithmetic; "
    "non-trivial = timestamps with a non-zero sub-millisecond part or a non-zero UTC offset, durations that are floats not exactly representable in microseconds, or >= 1 day, and all JSON round trips"
)
ASSUMPTIONS = [
    "float durations: |stored - exact rational value of the float| < 1 us (lenient on rounding ties); ints and timedeltas exact",
    "naive datetimes are not generated (statement speaks of aware datetimes and ISO strings with offset or Z)",
    "the grid is concentrated on float binade edges and all 10^6 sub-second values; it is not the full 10^15 instant space",
]
_G = {}
US = timedelta(microseconds=1)


class FoldTZ(tzinfo):
    """A zone with one DST end: wall times 02:00-03:00 on 2021-10-31 occur twice; before the
    switch (and for fold=0 inside the repeated hour) the offset is +02:00, afterwards +01:00.
    Self-contained (no tzdata needed)."""

    SWITCH = datetime(2021, 10, 31, 2, 0, 0)  # wall clock (standard time) at which the repeated hour starts

    def utcoffset(self, dt):
        naive = dt.replace(tzinfo=None)
        if naive < self.SWITCH:
            return timedelta(hours=2)
        if naive < self.SWITCH + timedelta(hours=1):
            return timedelta(hours=1) if dt.fold else timedelta(hours=2)
        return timedelta(hours=1)

    def dst(self, dt):
        return self.utcoffset(dt) - timedelta(hours=1)

    def tzname(self, dt):
        return "FOLD"

    def fromutc(self, dt):
        # dt is in UTC with tzinfo=self
        naive = dt.replace(tzinfo=None)
        std = naive + timedelta(hours=1)
        dstt = naive + timedelta(hours=2)
        if dstt < self.SWITCH + timedelta(hours=1) and naive < datetime(2021, 10, 31, 1, 0, 0):
            return dstt.replace(tzinfo=self)
        r = std.replace(tzinfo=self)
        if self.SWITCH <= std < self.SWITCH + timedelta(hours=1):
            r = r.replace(fold=1)
        return r


def _unit_fold(_):
    """aware datetimes in a zone with a repeated hour, fold=0 and fold=1, constructor and setter"""
    u = Unit()
    tz = FoldTZ()
    for minute in (0, 1, 30, 59):
        for hour in (1, 2, 3):
            for fold in (0, 1):
                for us in (0, 1, 999, 123456, 999999):
                    dt = datetime(2021, 10, 31, hour, minute, 7, us, tzinfo=tz, fold=fold)
                    off = tz.utcoffset(dt)
                    want = S.us_of((dt.replace(tzinfo=None) - off).replace(tzinfo=UTC))
                    for path in ("ctor", "setter"):
                        if path == "ctor":
                            e = Event(timestamp=dt, duration=0, data={})
                        else:
                            e = Event(timestamp=datetime(2000, 1, 1, tzinfo=UTC), duration=0, data={})
                            e.timestamp = dt
                        u.evaluations += 1
                        u.states += 1
                        u.transitions += 1
                        u.nontrivial += 1
                        for sym, det in check_ts(e.timestamp, want, f"fold-zone {dt.isoformat()} fold={fold} via {path}"):
                            u.violation(f"event:{sym}:dst-fold/{path}", det, {"kind": "fold"}, size=hour * 100 + minute + fold)
    # a DST zone whose offset is zero at the instant given (winter time): the event must still hold a UTC datetime
    class WinterZero(tzinfo):
        def utcoffset(self, dt):
            return timedelta(hours=1) if 4 <= dt.month <= 9 else timedelta(0)

        def dst(self, dt):
            return self.utcoffset(dt)

        def tzname(self, dt):
            return "WINTERZERO"

    wz = WinterZero()
    for month in (1, 7, 12):
        for us in (0, 999, 123456):
            dt = datetime(2021, month, 15, 10, 30, 0, us, tzinfo=wz)
            want = S.us_of((dt.replace(tzinfo=None) - wz.utcoffset(dt)).replace(tzinfo=UTC))
            for path in ("ctor", "setter"):
                if path == "ctor":
                    e = Event(timestamp=dt, duration=0, data={})
                else:
                    e = Event(timestamp=datetime(2000, 1, 1, tzinfo=UTC), duration=0, data={})
                    e.timestamp = dt
                u.evaluations += 1
                u.states += 1
                u.transitions += 1
                u.nontrivial += 1
                for sym, det in check_ts(e.timestamp, want, f"zero-offset DST zone {dt.isoformat()} via {path}"):
                    u.violation(f"event:{sym}:zero-offset-dst-zone/{path}", det, {"kind": "fold"}, size=month)
    u.sample({"kind": "dst fold", "wall_time": "2021-10-31T02:30:07.123456", "fold": [0, 1], "zone": "offset +02:00 before / +01:00 after a repeated hour"})
    return u.result()


def floor_ms_us(us):
    return us - us % 1000


def check_ts(ev_ts, want_us, what):
    probs = []
    if ev_ts.tzinfo is None or ev_ts.utcoffset() != timedelta(0) or ev_ts.tzinfo != timezone.utc:
        # a zone that merely happens to have offset 0 at this instant (London in winter) is not UTC:
        # arithmetic on such a datetime follows that zone's rules
        probs.append(("timestamp-not-utc-aware", f"{what}: tzinfo {ev_ts.tzinfo!r}"))
        return probs
    got = S.us_of(ev_ts)
    if got != floor_ms_us(want_us):
        probs.append(("timestamp-not-floored-to-ms" if got != want_us - want_us % 1000 and abs(got - want_us) < 1000 else "timestamp-wrong-instant", f"{what}: stored {got} us, given {want_us} us, expected {floor_ms_us(want_us)}"))
    return probs


def reps(dt):
    """representations of one aware instant -> list of (name, value)"""
    out = [("datetime", dt), ("iso-T", dt.isoformat()), ("iso-space", dt.isoformat(sep=" "))]
    if dt.utcoffset() == timedelta(0):
        out.append(("iso-Z", dt.replace(tzinfo=None).isoformat() + "Z"))
    else:
        iso = dt.isoformat()
        # ISO-8601 basic offset forms: +hhmm, and +hh when the offset has no minutes
        out.append(("iso-offset-no-colon", iso[:-6] + iso[-6:].replace(":", "")))
        if iso.endswith(":00"):
            out.append(("iso-offset-hours-only", iso[:-3]))
    return out


def _unit_us(args):
    base_s, lo, hi, mode, stride = args
    u = Unit()
    base = datetime.fromtimestamp(base_s, UTC)
    tz = timezone(timedelta(minutes=345))
    for us in range(lo, hi, stride):
        dt = base.replace(microsecond=us)
        want = base_s * 1_000_000 + us
        if mode == "dt":
            e = Event(timestamp=dt if us % 2 else dt.astimezone(tz), duration=0, data={})
        else:
            e = Event(timestamp=(dt if us % 2 else dt.astimezone(tz)).isoformat(), duration=0, data={})
        u.evaluations += 1
        u.states += 1
        u.transitions += 1
        if us % 1000:
            u.nontrivial += 1
        for sym, det in check_ts(e.timestamp, want, f"{mode} us={us}"):
            u.violation(f"event:{sym}:{mode}", det, {"kind": "us", "base_s": base_s, "us": us, "mode": mode}, size=us)
    u.sample({"kind": "microsecond sweep", "base": base.isoformat(), "range": [lo, hi], "stride": stride, "path": mode}, cap=1)
    return u.result()


def anchors():
    a = [0, 1]
    for k in range(20, 32):
        a += [2 ** k - 1, 2 ** k, 2 ** k + 1]
    for k in (49, 50, 51):
        s = (2 ** k) // 1_000_000
        a += [s - 1, s, s + 1]
    a.append(4133980799)  # 2100-12-31T23:59:59
    for y in range(1970, 2101):
        a.append(int(datetime(y, 1 + y % 12, 1 + y % 28, 12, 0, 0, tzinfo=UTC).timestamp()))
    return sorted(set(a))


def _unit_anchor(anchs):
    u = Unit()
    for s in anchs:
        for us in (0, 1, 999, 1000, 500500, 999999):
            want = s * 1_000_000 + us
            inst = datetime.fromtimestamp(s, UTC).replace(microsecond=us)
            for off in OFFSETS_MIN:
                dt = inst.astimezone(timezone(timedelta(minutes=off)))
                for name, val in reps(dt):
                    for path in ("ctor", "setter"):
                        try:
                            if path == "ctor":
                                e = Event(timestamp=val, duration=1, data={"x": 1})
                            else:
                                e = Event(timestamp=datetime(2000, 1, 1, tzinfo=UTC), duration=1, data={"x": 1})
                                e.timestamp = val
                            probs = check_ts(e.timestamp, want, f"{name}/{path} {val}")
                        except Exception as ex:
                            probs = [("event-raised", f"{name}/{path} {val}: {type(ex).__name__}: {ex}")]
                        u.evaluations += 1
                        u.states += 1
                        u.transitions += 1
                        if us % 1000 or off:
                            u.nontrivial += 1
                        for sym, det in probs:
                            u.violation(f"event:{sym}:{name}/{path}", det, {"kind": "anchor", "s": s, "us": us, "offset_min": off, "rep": name, "path": path}, size=abs(off) + us // 1000)
    if anchs:
        u.sample({"kind": "anchor", "epoch_s": anchs[0], "sub_us": [0, 1, 999, 1000, 500500, 999999], "offsets_min": list(OFFSETS_MIN), "reps": ["datetime", "iso-T", "iso-space", "iso-Z"], "paths": ["ctor", "setter"]}, cap=1)
    return u.result()


def duration_grid():
    g = []
    for i in (0, 1, 2, 3, 59, 60, 3599, 86399, 86400, 86401, 30 * 86400 - 1, 30 * 86400):
        g.append(("int", i))
    for usv in [0, 1, 2, 499, 500, 501, 999, 1000, 1001, 10 ** 6 - 1, 10 ** 6, 10 ** 6 + 1, 86400 * 10 ** 6, 86400 * 10 ** 6 + 1, 30 * 86400 * 10 ** 6 - 1, 30 * 86400 * 10 ** 6] + [2 ** k for k in range(2, 42)] + [2 ** k + 1 for k in range(2, 42)]:
        g.append(("td", usv))
    for k in range(0, 2001):
        g.append(("float", k * 1e-6))
    for f in (0.1, 1 / 3, 1e-7, 1.5e-6, 2.5e-6, 123456.789012, 0.0005, 0.9999995, 86400.000001, 2592000.0, 1e-9, 0.3, 0.7, 1.1, 2.675):
        g.append(("float", f))
    for k in range(0, 42):
        g.append(("float", (2 ** k) * 1e-6))
        g.append(("float", (2 ** k + 1) * 1e-6))
    # negative durations are durations too (C08 speaks of them): truncation and floor differ there
    # (seeded: int(d) seconds + round(d % 1 * 1e6) microseconds)
    for i in (-1, -2, -86400):
        g.append(("int", i))
    for usv in (-1, -999, -1000, -1500000, -86400 * 10 ** 6 - 1):
        g.append(("td", usv))
    for f in (-1.5, -0.25, -1e-6, 0.3 - 0.1 - 0.2, -86400.5, -0.9999995, -2.675, -1e-9):
        g.append(("float", f))
    return g


def check_duration(kind, v, path):
    arg = timedelta(microseconds=v) if kind == "td" else v
    try:
        if path == "ctor":
            e = Event(timestamp=datetime(2020, 1, 1, tzinfo=UTC), duration=arg, data={})
        else:
            e = Event(timestamp=datetime(2020, 1, 1, tzinfo=UTC), duration=0, data={})
            e.duration = arg
    except Exception as ex:
        return [("duration-raised", f"{kind} {v!r}: {type(ex).__name__}: {ex}")], None
    d = e.duration
    if not isinstance(d, timedelta):
        return [("duration-not-timedelta", f"{kind} {v!r}: {type(d)}")], e
    got = d // US
    if kind == "td":
        ok = got == v
        want = v
    elif kind == "int":
        ok = got == v * 1_000_000
        want = v * 1_000_000
    else:
        want = Fraction(v) * 1_000_000
        ok = abs(Fraction(got) - want) < 1
    if not ok:
        return [("duration-wrong", f"{kind} {v!r} via {path}: stored {got} us, expected {float(want)} us")], e
    return [], e


DATA = [
    {},
    {"a": 1},
    {"title": "héllo wörld", "app": "x"},
    {"q": "dq\" sq' bs\\ nl\n tab\t"},
    {"nested": {"l": [1, 2.5, None, True, {"d": []}], "e": {}}},
    {"f": [0.1, 1e-7, 1e300, -0.0, 2 ** 53 + 1]},
    {"emoji": "\U0001F600", "comb": "é", "ctrl": "\x01\x1f"},
    {"$category": ["A", "B"], "url": "http://x/?a=1&b=2#f"},
]
IDS = [None, 0, 7, "x"]


def _unit_json(_):
    u = Unit()
    schema = get_json_schema("event")
    fc = jsonschema.FormatChecker()
    validator = jsonschema.Draft4Validator(schema, format_checker=fc)
    anchs = [0, 1, 2 ** 31 - 1, 2 ** 31, (2 ** 51) // 10 ** 6, 4133980799, 1577880000]
    durs = [0, 1, 999, 1000, 10 ** 6 + 1, 86400 * 10 ** 6, 86400 * 10 ** 6 + 1, 30 * 86400 * 10 ** 6 - 1, 2 ** 41 + 1, 123456789012]
    n = 0
    for s in anchs:
        for ms in (0, 1, 999):
            for off in (0, 345, -570):
                ts = datetime.fromtimestamp(s, UTC).replace(microsecond=ms * 1000).astimezone(timezone(timedelta(minutes=off)))
                for du in durs:
                    data = DATA[n % len(DATA)]
                    i = IDS[n % len(IDS)]
                    n += 1
                    e = Event(id=i, timestamp=ts, duration=timedelta(microseconds=du), data=json.loads(json.dumps(data)))
                    probs = []
                    if e.id != i or (i is not None and type(e.id) is not type(i)):
                        probs.append(("constructed-event-lost-its-id", f"Event(id={i!r}).id == {e.id!r}"))
                    try:
                        jd = e.to_json_dict()
                        errs = sorted(validator.iter_errors(jd), key=str)
                        if errs:
                            probs.append(("json-does-not-validate", f"{jd}: {errs[0].message}"))
                        js = e.to_json_str()
                        e2 = Event(**json.loads(js))
                        if not (e2 == e) or e2.id != e.id or S.us_of(e2.timestamp) != S.us_of(e.timestamp) or e2.duration != e.duration:
                            probs.append(("json-roundtrip-differs", f"{S.ev_tuple(e)} -> {js} -> {S.ev_tuple(e2)}"))
                        # serialise, then change every attribute through its setter, then serialise again:
                        # the JSON form must follow (a seeded memo of the serialised dict forgot the id setter)
                        e.to_json_dict()
                        for attr, val in (("id", 4242), ("timestamp", ts + timedelta(hours=3)), ("duration", timedelta(microseconds=du + 1)), ("data", {"changed": True})):
                            e4 = Event(**json.loads(e.to_json_str()))
                            e4.to_json_str()
                            e4.to_json_dict()
                            setattr(e4, attr, val)  # ONE attribute assigned after a serialisation
                            j4 = json.loads(e4.to_json_str())
                            e5 = Event(**j4)
                            if e5.id != e4.id or not (e5 == e4) or S.us_of(e5.timestamp) != S.us_of(e4.timestamp) or e5.duration != e4.duration or getattr(e5, attr) != getattr(e4, attr) or (attr == "id" and j4.get("id") != 4242):
                                probs.append((f"json-stale-after-assigning-{attr}", f"serialise, assign {attr}, serialise again: JSON form is {j4}"))
                        e3 = Event(**e)
                        if not (e3 == e) or e3.id != e.id:
                            probs.append(("copy-from-event-differs", f"{S.ev_tuple(e)} -> {S.ev_tuple(e3)}"))
                        if e3.timestamp.utcoffset() != timedelta(0) or e2.timestamp.utcoffset() != timedelta(0):
                            probs.append(("rebuilt-event-not-utc", ""))
                    except Exception as ex:
                        probs.append(("json-raised", f"{S.ev_tuple(e)}: {type(ex).__name__}: {ex}"))
                    u.evaluations += 1
                    u.states += 1
                    u.transitions += 3
                    u.nontrivial += 1
                    for sym, det in probs[:1]:
                        u.violation(f"event:{sym}", det, {"kind": "json", "s": s, "ms": ms, "offset_min": off, "dur_us": du, "data_i": (n - 1) % len(DATA), "id_i": (n - 1) % len(IDS)}, size=du // 10 ** 6 + ms)
    # Event() without timestamp: 'now' must come out floored to ms as well
    for _ in range(25):
        e = Event(duration=0, data={})
        u.evaluations += 1
        u.transitions += 1
        if e.timestamp.microsecond % 1000 or e.timestamp.utcoffset() != timedelta(0):
            u.violation("event:default-now-not-floored", f"Event() has timestamp {e.timestamp.isoformat()}", {"kind": "now"})
    u.sample({"kind": "json", "anchors_epoch_s": anchs, "durations_us": durs, "data_catalogue": len(DATA), "ids": [str(i) for i in IDS]})
    return u.result()


def _unit_dur(items):
    u = Unit()
    for kind, v in items:
        for path in ("ctor", "setter"):
            probs, e = check_duration(kind, v, path)
            u.evaluations += 1
            u.states += 1
            u.transitions += 1
            if kind == "float" or (kind == "td" and v >= 86400 * 10 ** 6) or (kind == "int" and v >= 86400):
                u.nontrivial += 1
            for sym, det in probs:
                u.violation(f"event:{sym}:{kind}", det, {"kind": "dur", "dkind": kind, "v": v, "path": path}, size=int(abs(v)) if kind != "float" else int(v * 1e6))
    if items:
        u.sample({"kind": "duration", "given_as": items[0][0], "value": items[0][1]}, cap=1)
    return u.result()


def _dispatch(x):
    return {"us": _unit_us, "anchor": _unit_anchor, "json": _unit_json, "dur": _unit_dur, "fold": _unit_fold}[x[0]](x[1])


def run(ctx):
    _G["ctx"] = ctx
    units = []
    base_s = int(ctx.base.timestamp())
    bases = [base_s] + ([(2 ** 51) // 10 ** 6] if ctx.thorough else [])
    step = 1_000_000 // (ctx.workers * 2)
    for b in bases:
        for lo in range(0, 1_000_000, step):
            units.append(("us", (b, lo, min(1_000_000, lo + step), "dt", 1)))
            units.append(("us", (b, lo, min(1_000_000, lo + step), "iso", 1)))
    for ch in chunked(anchors(), ctx.workers * 2):
        units.append(("anchor", ch))
    for ch in chunked(duration_grid(), ctx.workers):
        units.append(("dur", ch))
    units.append(("json", None))
    units.append(("fold", None))
    agg = Agg()
    for r in ctx.pmap(_dispatch, units):
        agg.add(r)
    agg.extra["anchors"] = len(anchors())
    agg.extra["durations"] = len(duration_grid())
    ctx.selfcheck(agg.evaluations > 1_000_000, "microsecond sweep did not run completely")
    return agg


def run_case(ctx, case):
    k = case["kind"]
    if k == "us":
        base = datetime.fromtimestamp(case["base_s"], UTC).replace(microsecond=case["us"])
        e = Event(timestamp=base if case["mode"] == "dt" else base.isoformat(), duration=0, data={})
        probs = check_ts(e.timestamp, case["base_s"] * 10 ** 6 + case["us"], "replay")
        return {"stored": e.timestamp.isoformat(), "violations": [list(p) for p in probs]}
    if k == "anchor":
        r = _unit_anchor([case["s"]])
        return {"violations": [[v["key"], v["what"]] for v in r["violations"]]}
    if k == "dur":
        probs, e = check_duration(case["dkind"], case["v"], case["path"])
        return {"stored": str(e.duration) if e else None, "violations": [list(p) for p in probs]}
    r = (_unit_fold if k == "fold" else _unit_json)(None)
    return {"violations": [[v["key"], v["what"]] for v in r["violations"]]}
