"""C08 -- heartbeat merging is the pulsetime hull rule; reduction is a normal form.

Explorer L: every pair of lattice events (incl. negative/zero durations, equal
timestamps, equal/different data) x pulsetimes (0, fractional, integral), and
every ordered list of <= n lattice events; heartbeat_merge / heartbeat_reduce of
the working tree vs an integer reference rule and its left fold."""
import itertools
import json

from aw_transform import heartbeat_merge, heartbeat_reduce
from mc.core import Agg, Unit
from mc.drivers import stores as S
from mc.lattice import Emb, chunked

BOUNDS = {
    "quick": {"fractional_pulsetimes": "21 float pulsetimes (1.001, 2.01, 0.1+0.2, 1/3, sub-millisecond ...) x gaps floor(p)-1, floor(p), floor(p)+2, floor(p)+1000 us x 3 first durations", "pairs": "s1,s2 in 0..4, d1,d2 in {-1,0,1,2,3}, data equal/different, pulsetime in {0,.5,1,1.5,2} units, units 1 s and 1 ms", "lists": "all ordered sequences of <=4 events over s in 0..3 x d in {-1,0,1,2} x 2 labels (32 values), pulsetimes {0,.5,1,2}, unit 1 s; sequences of <=2 (32 values) and 3 (12 values) at 1 ms"},
    "thorough": {"pairs": "as quick plus s in 0..6, d up to 4", "lists": "all ordered sequences of <=4 over the 32-value alphabet and of 5, 6 over the 12-value alphabet; units 1 s and 1 ms"},
}
RULE = (
    "pairs: full product of starts x durations x label equality x pulsetimes; lists: every ORDERED sequence (any order, overlaps, duplicates) up to the length bound; "
    "non-trivial (pairs) = second start equals the first start or equals first end + pulsetime exactly, or the first duration is negative, or equal data with the second ending before the first; (lists) = some consecutive input pair sits exactly on the pulsetime boundary or has a negative-duration first event with equal data"
)
ASSUMPTIONS = [
    "heartbeat_merge/reduce may mutate their arguments (statement does not forbid it); fresh events are built per call",
    "comparison is exact in integer microseconds; lattice units 1 s and 1 ms",
]
_G = {}


def ref_merge(a, b, p):
    """a, b: (s, d, label) in us; p in us -> merged tuple or None"""
    if a[2] == b[2] and a[0] <= b[0] <= a[0] + a[1] + p and a[1] >= 0:
        end = max(a[0] + a[1], b[0] + b[1])
        return (a[0], end - a[0], a[2])
    return None


def ref_reduce(evs, p):
    out = []
    for e in evs:
        if out:
            m = ref_merge(out[-1], e, p)
            if m is not None:
                out[-1] = m
                continue
        out.append(e)
    return out


def tus(emb, t):
    return (round(t[0] * emb.unit_us), round(t[1] * emb.unit_us), t[2])


def of_event(emb, e):
    return (S.us_of(e.timestamp) - S.us_of(emb.base), S.dus_of(e.duration), e.data.get("label"))


def _pair_unit(args):
    unit_us, s1s, chunk_d = args
    ctx = _G["ctx"]
    emb = Emb(ctx.base, unit_us)
    u = Unit()
    L = ctx.labels
    for s1 in s1s:
        for d1 in chunk_d:
            for s2 in _G["S"]:
                for d2 in _G["D"]:
                    for same in (True, False):
                        for p in _G["P"]:
                            a = (s1, d1, L[0])
                            b = (s2, d2, L[0] if same else L[1])
                            pus = round(p * unit_us)
                            want = ref_merge(tus(emb, a), tus(emb, b), pus)
                            ea, eb = emb.ev(*a), emb.ev(*b)
                            try:
                                got = heartbeat_merge(ea, eb, pus / 1_000_000)
                                got_t = None if got is None else of_event(emb, got)
                                err = None
                            except Exception as e:
                                got_t, err = "raised", f"{type(e).__name__}: {e}"
                            u.evaluations += 1
                            u.transitions += 1
                            u.states += 1
                            nt = s1 == s2 or s2 == s1 + d1 + p or d1 < 0 or (same and s2 + d2 < s1 + d1)
                            if nt:
                                u.nontrivial += 1
                            if got_t != want:
                                if err:
                                    sym = "merge-raised"
                                elif want is None:
                                    sym = "merged-when-it-must-not"
                                elif got_t is None:
                                    sym = "refused-when-it-must-merge"
                                else:
                                    sym = "merged-event-wrong"
                                case = {"kind": "pair", "unit_us": unit_us, "a": list(a), "b": list(b), "pulsetime_units": p}
                                u.violation(f"merge:{sym}", f"heartbeat_merge({a}, {b}, pulsetime {p} units of {unit_us}us) = {got_t} {err or ''}; hull rule gives {want}", case, size=len(json.dumps(case)))
                            u.hist["merge_yes" if want else "merge_no"] += 1
    u.sample({"kind": "pair", "unit_us": unit_us, "a": [s1s[0], chunk_d[0], "X"], "b": [0, 1, "X"], "pulsetimes": list(_G["P"])}, cap=1)
    return u.result()


def check_list(emb, seq, p, u):
    pus = round(p * emb.unit_us)
    want = ref_reduce([tus(emb, t) for t in seq], pus)
    try:
        out = heartbeat_reduce([emb.ev(*t) for t in seq], pus / 1_000_000)
        got = [of_event(emb, e) for e in out]
    except Exception as e:
        return [("reduce-raised", f"{type(e).__name__}: {e}")]
    probs = []
    if got != want:
        probs.append(("reduce-differs-from-left-fold", f"heartbeat_reduce = {got}; left fold of the hull rule = {want}"))
        return probs
    # normal form (checked on the implementation's own output, with the implementation's merge)
    for x, y in zip(got, got[1:]):
        ex, ey = emb.ev(x[0] / emb.unit_us, x[1] / emb.unit_us, x[2]), emb.ev(y[0] / emb.unit_us, y[1] / emb.unit_us, y[2])
        if heartbeat_merge(ex, ey, pus / 1_000_000) is not None:
            probs.append(("output-has-mergeable-neighbours", f"{x} and {y} in {got}"))
    again = [of_event(emb, e) for e in heartbeat_reduce([emb.ev(x[0] / emb.unit_us, x[1] / emb.unit_us, x[2]) for x in got], pus / 1_000_000)]
    if again != got:
        probs.append(("reduce-not-idempotent", f"{got} -> {again}"))
    for t in (tus(emb, t) for t in seq):
        if t[1] >= 0 and not any(o[0] <= t[0] and t[0] + t[1] <= o[0] + o[1] for o in got):
            probs.append(("input-interval-not-covered", f"{t} not inside any of {got}"))
    return probs


def _list_unit(args):
    unit_us, alpha_name, n, firsts = args
    ctx = _G["ctx"]
    emb = Emb(ctx.base, unit_us)
    u = Unit()
    alpha = _G["alphas"][alpha_name]
    for first in firsts:
        for rest in itertools.product(alpha, repeat=n - 1):
            seq = (first,) + rest
            for p in _G["PL"]:
                u.evaluations += 1
                u.transitions += 1
                u.states += 1
                nt = any(b[0] == a[0] + a[1] + p or (a[1] < 0 and a[2] == b[2]) for a, b in zip(seq, seq[1:])) if n > 1 else seq[0][1] < 0
                if nt:
                    u.nontrivial += 1
                for sym, det in check_list(emb, seq, p, u)[:1]:
                    case = {"kind": "list", "unit_us": unit_us, "seq": [list(t) for t in seq], "pulsetime_units": p}
                    u.violation(f"reduce:{sym}", f"list {list(seq)} pulsetime {p}: {det}", case, size=n * 1000 + len(json.dumps(case)))
    u.sample({"kind": "list", "unit_us": unit_us, "first": list(firsts[0]), "length": n, "alphabet": alpha_name, "pulsetimes": list(_G["PL"])}, cap=1)
    return u.result()


def _cfg(ctx):
    _G["ctx"] = ctx
    L = ctx.labels
    _G["S"] = tuple(range(0, 7 if ctx.thorough else 5))
    _G["D"] = (-1, 0, 1, 2, 3, 4) if ctx.thorough else (-1, 0, 1, 2, 3)
    _G["P"] = (0, 0.5, 1, 1.5, 2)
    _G["PL"] = (0, 0.5, 1, 2)
    _G["alphas"] = {
        "A32": tuple((s, d, l) for s in range(4) for d in (-1, 0, 1, 2) for l in L[:2]),
        "A12": tuple((s, d, l) for s in range(3) for d in (0, 1) for l in L[:2]),
    }


def run(ctx):
    _cfg(ctx)
    units = []
    for unit_us in (1_000_000, 1_000):
        for s1 in _G["S"]:
            for d1 in _G["D"]:
                units.append(("pair", (unit_us, (s1,), (d1,))))
    plan = [("A32", 1), ("A32", 2), ("A32", 3), ("A12", 4), ("A32", 4)]
    if ctx.thorough:
        plan += [("A12", 5), ("A12", 6)]
    list_units = (1_000_000, 1_000) if ctx.thorough else (1_000_000,)
    for unit_us in list_units:
        for an, n in plan:
            alpha = _G["alphas"][an]
            for ch in chunked(alpha, len(alpha) if n >= 3 else 4):
                if n >= 4 and an == "A32":
                    for f in ch:
                        for g in chunked(alpha, 4):
                            units.append(("list2", (unit_us, an, n, f, tuple(g))))
                    continue
                units.append(("list", (unit_us, an, n, tuple(ch))))
    if not ctx.thorough:
        # one pass of the short lists at ms scale as well
        for an, n in (("A32", 2), ("A12", 3)):
            alpha = _G["alphas"][an]
            for ch in chunked(alpha, 8):
                units.append(("list", (1_000, an, n, tuple(ch))))
    units.append(("pulse", None))
    units.append(("data", None))
    agg = Agg()
    for r in ctx.pmap(_dispatch, units):
        agg.add(r)
    ctx.selfcheck(agg.hist.get("merge_yes", 0) > 0 and agg.hist.get("merge_no", 0) > 0, "vacuous: merge outcomes not both seen")
    return agg


def _list2_unit(args):
    unit_us, an, n, first, seconds = args
    ctx = _G["ctx"]
    emb = Emb(ctx.base, unit_us)
    u = Unit()
    alpha = _G["alphas"][an]
    for second in seconds:
        for rest in itertools.product(alpha, repeat=n - 2):
            seq = (first, second) + rest
            for p in _G["PL"]:
                u.evaluations += 1
                u.transitions += 1
                u.states += 1
                if any(b[0] == a[0] + a[1] + p or (a[1] < 0 and a[2] == b[2]) for a, b in zip(seq, seq[1:])):
                    u.nontrivial += 1
                for sym, det in check_list(emb, seq, p, u)[:1]:
                    case = {"kind": "list", "unit_us": unit_us, "seq": [list(t) for t in seq], "pulsetime_units": p}
                    u.violation(f"reduce:{sym}", f"list {list(seq)} pulsetime {p}: {det}", case, size=n * 1000 + len(json.dumps(case)))
    return u.result()


PULSE_CATALOGUE = (0.001, 0.0015, 0.002, 0.01, 0.1, 0.3, 0.1 + 0.2, 1 / 3, 1.001, 2.01, 4.02, 2.675, 59.999, 0.000001, 0.000002, 0.000999, 0.0005, 86400.5, 3600.000001, 5, 5.0)


def _unit_pulse(_):
    """fractional pulsetimes at the exact boundary: the second event starts floor(p) microseconds after
    the first one ends (must merge) and floor(p)+2 microseconds after it (must not), for pulsetimes
    whose float value is not a whole number of milliseconds / microseconds"""
    from fractions import Fraction
    from datetime import timedelta as td

    ctx = _G["ctx"]
    emb = Emb(ctx.base, 1)  # lattice unit: one microsecond
    u = Unit()
    L = ctx.labels
    for p in PULSE_CATALOGUE:
        pus = Fraction(p) * 1_000_000
        lo = int(pus)  # floor: a gap of lo us is <= p
        for j in (0, 1, 1234):
            for gap, want_merge in ((lo, True), (max(lo - 1, 0), True), (lo + 2, False), (lo + 1000, False)):
                # timestamps are floored to the millisecond by Event, so the sub-millisecond part of
                # the gap is put into the first event's duration: its end is off-grid, the second start on it
                d1 = (1000 - gap % 1000) % 1000 + 1000 * j
                a = (0, d1, L[0])
                b = (d1 + gap, 7, L[0])
                ea, eb = emb.ev(*a), emb.ev(*b)
                got = heartbeat_merge(ea, eb, p)
                u.evaluations += 1
                u.transitions += 1
                u.states += 1
                u.nontrivial += 1
                merged = got is not None
                if merged != want_merge or (merged and of_event(emb, got) != (0, d1 + gap + 7, L[0])):
                    case = {"kind": "pulse", "pulsetime_s": p, "d1_us": d1, "gap_us": gap}
                    u.violation("merge:fractional-pulsetime-boundary-wrong", f"heartbeat_merge(first ends at {d1} us, second starts {gap} us later, pulsetime {p!r} s): merged={merged}, expected {want_merge}", case, size=gap)
    u.sample({"kind": "fractional pulsetime boundary", "pulsetimes_s": list(PULSE_CATALOGUE)[:8]})
    return u.result()


DATA_CATALOGUE = ({}, {"a": None}, {"b": "x"}, {"a": None, "b": 1}, {"b": 1, "c": 2}, {"a": [1]}, {"a": [1, 2]}, {"a": {"n": None}}, {"a": {"m": 1}}, {"A": None}, {"a": ""}, {"a": 0}, {"b": None, "a": None})


def _unit_data(_):
    """'their data are equal': all pairs of a catalogue of data dicts (null values, same size with
    different keys, nested, key order) on a mergeable pair of instants -- merged iff the dicts are equal"""
    import copy
    import json as _json

    ctx = _G["ctx"]
    emb = Emb(ctx.base, 1_000_000)
    u = Unit()
    for i, da in enumerate(DATA_CATALOGUE):
        for j, db in enumerate(DATA_CATALOGUE):
            for (s2, d2) in ((0, 1), (1, 0), (1, 2)):
                a = emb.ev(0, 1, copy.deepcopy(da))
                b = emb.ev(s2, d2, copy.deepcopy(db))
                want = _json.dumps(da, sort_keys=True) == _json.dumps(db, sort_keys=True)
                got = heartbeat_merge(a, b, 1.0) is not None
                u.evaluations += 1
                u.transitions += 1
                u.states += 1
                u.nontrivial += 1 if i != j else 0
                if got != want:
                    u.violation("merge:data-equality-wrong", f"heartbeat_merge(data {da}, data {db}) merged={got}; the dicts are {'equal' if want else 'different'}", {"kind": "data", "i": i, "j": j}, size=i + j)
    u.sample({"kind": "data equality", "catalogue": [str(d) for d in DATA_CATALOGUE][:6]})
    return u.result()


def _dispatch(u):
    return {"pair": _pair_unit, "list": _list_unit, "list2": _list2_unit, "pulse": _unit_pulse, "data": _unit_data}[u[0]](u[1])


def run_case(ctx, case):
    _cfg(ctx)
    emb = Emb(ctx.base, case["unit_us"])
    p = case["pulsetime_units"]
    if case["kind"] == "pair":
        a, b = tuple(case["a"]), tuple(case["b"])
        pus = round(p * emb.unit_us)
        want = ref_merge(tus(emb, a), tus(emb, b), pus)
        got = heartbeat_merge(emb.ev(*a), emb.ev(*b), pus / 1_000_000)
        got_t = None if got is None else of_event(emb, got)
        return {"observed": got_t, "expected": want, "violations": [] if got_t == want else [["merge-wrong", f"{got_t} != {want}"]]}
    if case["kind"] == "data":
        r = _unit_data(None)
        return {"violations": [[v["key"], v["what"]] for v in r["violations"]]}
    if case["kind"] == "pulse":
        r = _unit_pulse(None)
        return {"violations": [[v["key"], v["what"]] for v in r["violations"]]}
    seq = [tuple(t) for t in case["seq"]]
    probs = check_list(emb, seq, p, Unit())
    return {"seq": seq, "expected_fold": ref_reduce([tus(emb, t) for t in seq], round(p * emb.unit_us)), "violations": [list(x) for x in probs]}
