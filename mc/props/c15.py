"""C15 -- union_no_overlap keeps list one intact and only the uncovered parts of list two.

Explorer L: every pair of time-sorted, internally non-overlapping lists of <= n
lattice events (zero-length events, shared edges, containment either way, one
spanning many); oracle on unit cells."""
import collections
import itertools
import json

from aw_transform import union_no_overlap
from mc.core import Agg, Unit
from mc.drivers import stores as S
from datetime import timedelta

from mc.lattice import Emb, chunked

BOUNDS = {
    "quick": {"lists": "all sorted sequences of <=3 events (start, duration>=0, consecutive gap >= 0) on lattice 0..5; full product of pairs; unit 1 s; pairs of <=2 on 0..4 also at 1 ms, and on 0..5 at a 23 ms step from xx.028 s (float-unfriendly instants)"},
    "thorough": {"lists": "<=3 events on 0..6 full product; 4 events on 0..5 against <=2 events both ways; units 1 s and 1 ms"},
}
RULE = (
    "full product of the two list spaces; non-trivial = pairs where an event of one list overlaps >=2 events of the other, or a zero-length list-one event sits at or inside a list-two event"
)
ASSUMPTIONS = [
    "time-sorted, internally non-overlapping = sorted by start with every consecutive gap >= 0 (zero-length events may repeat or touch)",
    "zero-length events of list two may or may not be returned (statement speaks of sub-intervals); zero-length outputs are accepted only if they equal an input event",
    "output order is not prescribed beyond list one keeping its relative order",
]
_G = {}


def seqs(N, n):
    out = [()]

    def rec(prefix, min_s):
        if prefix:
            out.append(tuple(prefix))
        if len(prefix) == n:
            return
        for s in range(min_s, N + 1):
            for d in range(0, N - s + 1):
                prefix.append((s, d))
                rec(prefix, s + d)
                prefix.pop()

    rec([], 0)
    return out


def mk(emb, ivs, tag):
    return [emb.ev(s, d, {"label": f"{tag}{i}"}) for i, (s, d) in enumerate(ivs)]


def check(emb, a, b):
    A, B = mk(emb, a, "a"), mk(emb, b, "b")
    A0, B0 = [S.ev_tuple(e) for e in A], [S.ev_tuple(e) for e in B]
    try:
        out = union_no_overlap(A, B)
        again = union_no_overlap(A, B)  # same list objects a second time (state must not carry over)
    except Exception as e:
        return [("raised", f"{type(e).__name__}: {e}")], None
    probs = []
    if [S.ev_tuple(e) for e in out] != [S.ev_tuple(e) for e in again]:
        probs.append(("second-call-with-same-lists-differs", f"first {[S.ev_tuple(e)[1:3] for e in out]} second {[S.ev_tuple(e)[1:3] for e in again]}"))
    if [S.ev_tuple(e) for e in A] != A0 or [S.ev_tuple(e) for e in B] != B0:
        probs.append(("input-modified", "an input list or event changed"))
    got = []
    for e in out:
        lo, hi = emb.iv(e)
        if not (float(lo).is_integer() and float(hi).is_integer()):
            return [("off-lattice", f"{(lo, hi)}")], None
        got.append((int(lo), int(hi), e.data.get("label")))
    # list one unchanged and in order
    a_out = [g for g in got if g[2].startswith("a")]
    a_want = [(s, s + d, f"a{i}") for i, (s, d) in enumerate(a)]
    if a_out != a_want:
        if collections.Counter(a_out) == collections.Counter(a_want):
            probs.append(("list-one-reordered", f"list-one events in output {a_out}, given {a_want}"))
        else:
            probs.append(("list-one-event-changed-or-lost", f"list-one events in output {a_out}, given {a_want}"))
    acells = set()
    for s, d in a:
        acells.update(range(s, s + d))
    seen = {}
    for lo, hi, lab in got:
        if hi < lo:
            probs.append(("negative-length-output", f"{(lo, hi, lab)}"))
        for c in range(lo, hi):
            if c in seen:
                probs.append(("outputs-overlap", f"cell {c} covered by {seen[c]!r} and {lab!r}; output {got}"))
                break
            seen[c] = lab
    for j, (s, d) in enumerate(b):
        want = set(range(s, s + d)) - acells
        have = set()
        for lo, hi, lab in got:
            if lab == f"b{j}":
                have.update(range(lo, hi))
                if lo == hi and (lo, hi) != (s, s + d):
                    probs.append(("zero-length-piece-invented", f"{(lo, hi, lab)} for list-two event {(s, d)}"))
        if have - want:
            probs.append(("list-two-piece-covers-too-much", f"b{j}={(s, d)} returned cells {sorted(have)} but only {sorted(want)} are outside list one; output {got}"))
        if want - have:
            probs.append(("list-two-uncovered-part-missing", f"b{j}={(s, d)} cells {sorted(want - have)} are not covered by list one and missing from output {got}"))
    if not probs:
        # the SAME event objects moved one unit later and used again: the result moves with them (a period
        # remembered on the Event object, or any other per-object memo, would answer for the old position)
        from datetime import timedelta

        for e in A + B:
            e.timestamp = e.timestamp + timedelta(microseconds=emb.unit_us)
        try:
            out3 = union_no_overlap(A, B)
        except Exception as e:
            return [("raised", f"after moving the events: {type(e).__name__}: {e}")], None
        got3 = [(int(emb.iv(e)[0]) - 1, int(emb.iv(e)[1]) - 1, e.data.get("label")) for e in out3]
        if got3 != got:
            probs.append(("stale-after-events-moved", f"same objects moved by one unit: result (moved back) {got3}, before {got}"))
    return probs, got


def _nt(a, b):
    for s, d in a:
        if d == 0 and any(t <= s < t + f for t, f in b):
            return True  # zero-length list-one event at/inside a list-two event
    for x, y in ((a, b), (b, a)):
        for s, d in x:
            if sum(1 for t, f in y if min(s + d, t + f) - max(s, t) > 0) >= 2:
                return True
    return False


def _unit(args):
    unit_us, As, Bname = args
    ctx = _G["ctx"]
    emb = Emb(ctx.base, unit_us)
    if unit_us == 23_000:
        # instants such as 12:00:00.028 + 92 ms whose float epoch seconds do not add up exactly
        # (a seeded ordering comparison in float seconds dropped events on such a grid)
        from datetime import timedelta as _td

        emb = Emb(ctx.base + _td(milliseconds=28), unit_us)
    u = Unit()
    for a in As:
        for b in _G["sets"][Bname]:
            u.states += 1
            u.evaluations += 1
            u.transitions += 1
            if _nt(a, b):
                u.nontrivial += 1
            probs, got = check(emb, a, b)
            for sym, det in probs[:2]:
                case = {"unit_us": unit_us, "a": [list(x) for x in a], "b": [list(x) for x in b]}
                u.violation(f"union_no_overlap:{sym}", f"union_no_overlap({list(a)}, {list(b)}): {det}", case, size=(len(a) + len(b)) * 1000 + len(json.dumps(case)))
    if As:
        u.sample({"unit_us": unit_us, "list_one": [list(x) for x in As[-1]], "against": f"all {len(_G['sets'][Bname])} lists of {Bname}"}, cap=1)
    return u.result()


def _unit_subms(As):
    """list-one events ending INSIDE a millisecond (duration + 500 us): an exact cut is not representable
    (timestamps have ms resolution), so the oracle allows 1 ms per cut -- but nothing may be lost, the call
    must come back promptly, list one must be intact.  (The first repair of union_no_overlap re-split the
    same event ~26 000 times on such input and dropped the remainder.)"""
    import time as _time

    ctx = _G["ctx"]
    emb = Emb(ctx.base, 1_000)
    u = Unit()
    for a in As:
        for b, fb in itertools.product(_G["sets"]["N4n2"], (0, 400)):
            A = [emb.ev(s, d, {"label": f"a{i}"}) for i, (s, d) in enumerate(a)]
            for e in A:
                if e.duration.total_seconds() > 0:
                    e.duration = e.duration + timedelta(microseconds=500)
            # list one must stay non-overlapping after the extension
            if any(A[i].timestamp + A[i].duration > A[i + 1].timestamp for i in range(len(A) - 1)):
                continue
            B = mk(emb, b, "b")
            # ... and list-two events may end inside a millisecond as well (+400 us): an end less than 1 ms
            # inside a list-one event is still inside it (seeded: "before / after" tested with a 1 ms resolution)
            for e in B:
                if fb and e.duration.total_seconds() > 0:
                    e.duration = e.duration + timedelta(microseconds=fb)
            if any(B[i].timestamp + B[i].duration > B[i + 1].timestamp for i in range(len(B) - 1)):
                continue
            t0 = _time.process_time()
            try:
                out = union_no_overlap(A, B)
            except Exception as ex:
                u.violation("union_no_overlap:raised", f"{type(ex).__name__}: {ex}", {"kind": "subms", "a": [list(x) for x in a], "b": [list(x) for x in b]})
                continue
            dt = _time.process_time() - t0  # CPU time: a loaded machine must not raise this alarm
            u.evaluations += 1
            u.transitions += 1
            u.states += 1
            u.nontrivial += 1
            case = {"kind": "subms", "a": [list(x) for x in a], "b": [list(x) for x in b], "fb": fb}
            if dt > 0.5:
                u.violation("union_no_overlap:sub-ms-end:pathologically-slow", f"union_no_overlap({list(a)} with +500us ends, {list(b)}) took {dt:.2f} s", case, size=len(a) + len(b))
            a_out = [(S.us_of(e.timestamp), S.dus_of(e.duration)) for e in out if e.data["label"].startswith("a")]
            if a_out != [(S.us_of(e.timestamp), S.dus_of(e.duration)) for e in A]:
                u.violation("union_no_overlap:sub-ms-end:list-one-changed", f"{list(a)} / {list(b)}: list-one events in output {a_out}", case, size=len(a) + len(b))
            # list two, piece by piece, in microseconds: the uncovered sub-intervals of each event are known
            # exactly; every edge of a returned piece must be exact EXCEPT a piece start produced by a cut
            # at a list-one end inside a millisecond, which may lie up to 999 us early (timestamps have ms
            # resolution).  In particular a piece that runs to its source event's end ends exactly there
            # (seeded: remainder duration computed from the unfloored cut -> the tail lost up to 1 ms).
            cover = sorted((S.us_of(e.timestamp), S.us_of(e.timestamp) + S.dus_of(e.duration)) for e in A)
            for j, (s2, d2) in enumerate(b):
                lo, hi = S.us_of(emb.t(s2)), S.us_of(emb.t(s2 + d2)) + (fb if d2 > 0 else 0)
                want = []
                x = lo
                for c0, c1 in cover:
                    if c1 <= x or c0 >= hi:
                        continue
                    if c0 > x:
                        want.append((x, min(c0, hi)))
                    x = max(x, c1)
                if x < hi:
                    want.append((x, hi))
                if d2 == 0:
                    continue  # zero-length list-two events are covered by the main lattice
                have = sorted((S.us_of(e.timestamp), S.us_of(e.timestamp) + S.dus_of(e.duration)) for e in out if e.data["label"] == f"b{j}")
                have = [h for h in have if h[1] > h[0]]

                def coalesce(ivs):
                    # pieces that touch are one stretch of time (a zero-length list-one event covers nothing:
                    # whether the list-two event is cut there or not is the same set of instants)
                    out_ = []
                    for x0, x1 in ivs:
                        if out_ and out_[-1][1] == x0:
                            out_[-1] = (out_[-1][0], x1)
                        else:
                            out_.append((x0, x1))
                    return out_

                want, have = coalesce(want), coalesce(have)
                ok = len(have) == len(want)
                if ok:
                    for (w0, w1), (h0, h1) in zip(want, have):
                        start_ok = h0 == w0 or (w0 != lo and w0 % 1000 != 0 and w0 - 999 <= h0 <= w0)
                        if not start_ok or h1 != w1:
                            ok = False
                if not ok:
                    u.violation("union_no_overlap:sub-ms-end:list-two-pieces-wrong", f"{list(a)} (+500us ends) / {list(b)}: b{j} returned as {have} us, uncovered parts are {want} us (only a start at a sub-ms cut may be up to 999 us early)", case, size=len(a) + len(b))
    u.sample({"kind": "sub-millisecond ends", "list_one": [list(x) for x in As[-1]] if As else []}, cap=1)
    return u.result()


def shape(a, b):
    """coarse signature of the input used in violation keys: which structural feature is present"""
    f = []
    if any(d == 0 for _, d in a):
        f.append("zero-len-in-one")
    if any(d == 0 for _, d in b):
        f.append("zero-len-in-two")
    if any(sum(1 for t, g in b if min(s + d, t + g) - max(s, t) > 0) >= 2 for s, d in a):
        f.append("one-spans-several-of-two")
    if any(sum(1 for t, g in a if min(s + d, t + g) - max(s, t) > 0) >= 2 for s, d in b):
        f.append("two-spans-several-of-one")
    return "+".join(f) or "plain"


def _dispatch(x):
    return _unit_subms(x[1]) if x[0] == "subms" else _unit(x[1])


def run(ctx):
    _G["ctx"] = ctx
    sets = {}
    _G["sets"] = sets
    units = []
    if not ctx.thorough:
        sets["N5n3"] = seqs(5, 3)
        sets["N4n2"] = seqs(4, 2)
        for ch in chunked(sets["N5n3"], ctx.workers * 6):
            units.append((1_000_000, ch, "N5n3"))
        for ch in chunked(sets["N4n2"], ctx.workers):
            units.append((1_000, ch, "N4n2"))
        sets["N5n2"] = seqs(5, 2)
        for ch in chunked(sets["N5n2"], ctx.workers):
            units.append((23_000, ch, "N5n2"))
    else:
        sets["N6n3"] = seqs(6, 3)
        sets["N5n2"] = seqs(5, 2)
        sets["N5n4"] = [x for x in seqs(5, 4) if len(x) == 4]
        for unit_us in (1_000_000, 1_000):
            for ch in chunked(sets["N6n3"], ctx.workers * 16):
                units.append((unit_us, ch, "N6n3"))
        for ch in chunked(sets["N5n4"], ctx.workers * 4):
            units.append((1_000_000, ch, "N5n2"))
        for ch in chunked(sets["N5n2"], ctx.workers * 2):
            units.append((1_000_000, ch, "N5n4"))
    sets.setdefault("N4n2", seqs(4, 2))
    units = [("plain", x) for x in units] + [("subms", ch) for ch in chunked(seqs(5, 2), ctx.workers)]
    agg = Agg()
    for r in ctx.pmap(_dispatch, units):
        agg.add(r)
    agg.extra["space"] = {k: len(v) for k, v in sets.items()}
    ctx.selfcheck(agg.nontrivial > 0, "no non-trivial pair")
    return agg


def run_case(ctx, case):
    _G["ctx"] = ctx
    emb = Emb(ctx.base, case["unit_us"])
    a = tuple(tuple(x) for x in case["a"])
    b = tuple(tuple(x) for x in case["b"])
    if case.get("kind") == "subms":
        _G["sets"] = {"N4n2": [b]}
        r = _unit_subms([a])
        return {"violations": [[v["key"], v["what"]] for v in r["violations"]]}
    probs, got = check(emb, a, b)
    return {"list_one": a, "list_two": b, "output": got, "violations": [list(p) for p in probs]}
