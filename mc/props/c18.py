"""C18 -- buffered writes are flushed once they are about ten seconds old.

Explorer K (see kcommon) on the lazily-committing sqlite store with an owned
virtual clock: environment events advance the clock by 5 / 6 s and by one day + 3 s (thorough also 1 / 3600 s)
between writes; after any event write that returns more than 11 virtual
seconds after the previous flush, the crash image must contain that write."""
import os
import time

from mc.props import kcommon

ALPHA = ("ins1", "bulk2", "mix", "ups", "rep", "repl", "del", "delx", "get", "mkB2", "insB2", "delB2", "badbulk", "staleB2bulk", "clock+5", "clock+6", "clock+86403")
BOUNDS = {
    "quick": {"sqlite": list(ALPHA), "depth": "all histories of <= 7 operations (dedup on canonical state); thorough runs to fixpoint", "initial_state": "bucket B1 with 2 single-inserted events, flushed", "real_time_trace": "insert, sleep 11.5 s of wall-clock, insert -> must be durable (validates the virtual clock against the real one)"},
    "thorough": {"plus": "ups2, clock+3600, bulk51; BFS to fixpoint (state cap 150 000 / 25 min wall cap, reported if hit)"},
}
RULE = (
    "BFS to fixpoint over histories of event writes, reads, bucket ops and clock steps (+5, +6 virtual seconds: elapsed 10 = no flush, 11 = grey, >= 12 = must flush), deduplicated as in C06; 'previous flush' = latest of (store open, last COMMIT seen on the connection) -- an empty buffer is not a flush; the virtual machine's local zone is UTC-5 (naive local and naive UTC times differ); "
    "non-trivial = event writes that return more than 11 virtual seconds after the previous flush"
)
ASSUMPTIONS = [
    "the storage module reads the time through its module-level `datetime` name, which the harness replaces (self-check: after commit() the storage's last_commit equals the virtual now; one real-time trace per run)",
    "'about ten seconds' is checked with 1 s slack: a write issued > 11 s after the previous flush must be durable when it returns",
    "single-event writes must themselves be durable at return (age measured from the flush known when the operation was called); for multi-event operations (bulk, mixed upsert+insert) a flush during the operation counts as the previous flush for the elementary writes that follow it -- the unchanged tree flushes after the first upsert of such a batch and leaves the rest (0 s old) buffered, which the statement does not clearly forbid",
]


def configs(ctx):
    if ctx.thorough:
        return [{"name": "sqlite/clock", "backend": "sqlite", "alphabet": ALPHA + ("ups2", "clock+3600", "bulk51"), "max_states": 150000, "cap_s": 1500}]
    return [{"name": "sqlite/clock", "backend": "sqlite", "alphabet": ALPHA, "max_depth": 7}]


def _realtime_trace(ctx):
    """one wall-clock run (no virtual clock): insert, sleep > 10 s, insert; second connection must see both"""
    import sqlite3
    from datetime import datetime, timezone

    from aw_core.models import Event
    from mc.drivers import crash as K
    from mc.drivers import stores as S

    K.release_clock()
    wdir = os.path.join(ctx.wdir(), "rt")
    os.makedirs(wdir, exist_ok=True)
    ds = S.fresh("sqlite", wdir, name="rt")
    S.mk_bucket(ds, "r")
    b = ds["r"]
    b.get(1)
    b.insert(Event(timestamp=datetime(2020, 1, 1, tzinfo=timezone.utc), duration=1, data={"n": 1}))
    time.sleep(11.5)
    b.insert(Event(timestamp=datetime(2020, 1, 2, tzinfo=timezone.utc), duration=1, data={"n": 2}))
    blobs = K.file_bytes(ds._verif_path)
    img = os.path.join(wdir, "img.db")
    K.write_image(blobs, img)
    items = [i for i in K.dump_image("sqlite", img) if i[0] == "ev"]
    S.close_all()
    return len(items)


def run(ctx):
    import multiprocessing as mp

    # the real-time trace sleeps; run it in a forked child while the exploration proceeds
    mpctx = mp.get_context("fork")
    pool = mpctx.Pool(1)
    fut = pool.apply_async(_realtime_trace, (ctx,))
    agg = kcommon.run_k(ctx, "c18", configs(ctx))
    try:
        n = fut.get(timeout=120)
    except Exception as e:  # pragma: no cover
        n = f"failed: {e}"
    pool.terminate()
    agg.extra["real_time_trace_events_durable"] = n
    agg.traces += 1
    if n != 2:
        agg.violations.append({"key": "sqlite:real-time:old-write-not-flushed", "what": f"wall-clock trace: insert, sleep 11.5 s, insert -> reopened database holds {n} of 2 events", "case": {"backend": "sqlite", "history": ["<real time>"], "op": "ins1", "realtime": True}, "size": 1, "count": 1})
    ctx.selfcheck(agg.nontrivial > 0, "no write was issued more than 11 s after a flush")
    return agg


def run_case(ctx, case):
    if case.get("realtime"):
        n = _realtime_trace(ctx)
        return {"events_durable": n, "violations": [] if n == 2 else [["old-write-not-flushed", f"{n} of 2 events durable"]]}
    return kcommon.replay_case(ctx, dict(case, oracle="c18"))
