"""C12 -- queries only read: bucket data is unchanged and scoped to the query window.

Explorer P x stores: every pipeline of depth <= 2 (thorough 3) of built-ins over
query_bucket(b1|b2) -- incl. the in-place annotators, period_union (clears data),
flood/merge/chunk/sort/limit/filters -- plus aliasing forms and variants that
raise midway, x every query window of a small lattice (open/partial/empty/zero-width,
tz-offset forms) on each real backend; full dump of all buckets + metadata before
and after every query; query_bucket / query_bucket_eventcount vs direct windowed reads."""
import itertools
import json
from datetime import datetime, timedelta, timezone

from aw_core.models import Event
from aw_query import query2
from mc.core import Agg, Unit
from mc.drivers import stores as S
from mc.lattice import chunked
from mc.ref import queryeval as Q

UTC = timezone.utc
T0 = datetime(2020, 5, 5, 12, 0, 0, tzinfo=UTC)
BOUNDS = {
    "quick": {"pipelines": "query_bucket(b) ; u(e) ; u2(u1(e)) for 15 unary forms ; b(e1,e2), u(b(e1,e2)), b(u(e1),e2) for 4 binary forms ; aliasing form [u1(e), u2(e), e] ; each also followed by a statement that raises (unknown function / wrong type / unknown bucket)", "refetch": "fetch, transform in place (each unary form), fetch again: second query_bucket / eventcount vs direct read for every window", "windows": "12 windows over the lattice incl. zero-width, empty, sub-ms shifted and +05:30 / -08:00 forms", "backends": list(S.BACKENDS)},
    "thorough": {"pipelines": "additionally depth 3: u3(u2(u1(e))) over the 8 in-place/clearing forms", "windows": "30 windows"},
}
RULE = (
    "every enumerated program x window is run through aw_query.query2.query on a seeded datastore of each backend (3 buckets: windows with app/title/url, afk with overlaps, empty); the whole store (events of every bucket + metadata) is dumped before and after; "
    "non-trivial = programs containing an in-place annotator / data-clearing transform, or raising after work was done"
)
ASSUMPTIONS = [
    "the datastore is seeded through the public API; 'unchanged' compares ids, instants, durations, data of every event and the metadata of every bucket",
]
_G = {}

S_ = lambda t: ("str", t, '"')
L_ = lambda *xs: ("list", tuple(xs))
D_ = lambda **kw: ("dict", tuple(kw.items()))
I_ = lambda n: ("int", n)
RULES = L_(L_(L_(S_("Work")), D_(regex=S_("code"))), L_(L_(S_("Fun"), S_("News")), D_(regex=S_("news"), ignore_case=("var", "true"))))
TAGS = L_(L_(S_("t1"), D_(regex=S_("o"))))
MUTATORS = {"split_url_events", "simplify_window_titles", "categorize", "tag", "period_union", "flood", "chunk_events_by_key", "merge_events_by_keys"}


def unary(e):
    return [
        ("call", "sort_by_timestamp", (e,)),
        ("call", "sort_by_duration", (e,)),
        ("call", "flood", (e,)),
        ("call", "split_url_events", (e,)),
        ("call", "simplify_window_titles", (e, S_("title"))),
        ("call", "categorize", (e, RULES)),
        ("call", "tag", (e, TAGS)),
        ("call", "limit_events", (e, I_(2))),
        ("call", "merge_events_by_keys", (e, L_(S_("app")))),
        ("call", "chunk_events_by_key", (e, S_("app"))),
        ("call", "filter_keyvals", (e, S_("app"), L_(S_("Editor")))),
        ("call", "exclude_keyvals", (e, S_("app"), L_(S_("Editor")))),
        ("call", "filter_keyvals_regex", (e, S_("title"), S_("o"))),
        ("call", "sum_durations", (e,)),
        ("call", "period_union", (e, e)),
    ]


BIN = ("filter_period_intersect", "period_union", "concat", "union_no_overlap")
FAILS = (("call", "no_such_function", ()), ("call", "limit_events", (S_("x"), I_(1))), ("call", "query_bucket", (S_("no-such-bucket"),)), ("var", "undefined_variable"))


def programs(thorough):
    qb = {b: ("call", "query_bucket", (S_(b),)) for b in ("b1", "b2", "empty")}
    progs = []
    E = ("var", "e")
    F = ("var", "f")
    for b in ("b1", "b2", "empty"):
        progs.append((("RETURN", qb[b]),))
        progs.append((("RETURN", ("call", "query_bucket_eventcount", (S_(b),))),))
    for b in ("b1", "b2"):
        for u1 in unary(E):
            progs.append((("e", qb[b]), ("RETURN", u1)))
            progs.append((("e", qb[b]), ("x", u1), ("RETURN", L_(("var", "x"), E))))
            if u1[1] == "sum_durations":
                continue
            for u2 in unary(("var", "x")):
                progs.append((("e", qb[b]), ("x", u1), ("RETURN", u2)))
        us = unary(E)
        for i, u1 in enumerate(us):
            u2 = us[(i + 3) % len(us)]
            progs.append((("e", qb[b]), ("x", u1), ("y", u2), ("RETURN", L_(("var", "x"), ("var", "y"), E))))
    for fn in BIN:
        for b1, b2 in (("b1", "b2"), ("b2", "b1"), ("b1", "b1"), ("b1", "empty")):
            base = ("call", fn, (E, F))
            progs.append((("e", qb[b1]), ("f", qb[b2]), ("RETURN", base)))
            for u in unary(("var", "r"))[:8]:
                progs.append((("e", qb[b1]), ("f", qb[b2]), ("r", base), ("RETURN", u)))
            for u in unary(E)[2:9]:
                progs.append((("e", qb[b1]), ("f", qb[b2]), ("g", u), ("RETURN", ("call", fn, (("var", "g"), F)))))
    if thorough:
        mut = [u for u in unary(E) if u[1] in MUTATORS]
        for b in ("b1", "b2"):
            for a1 in mut:
                for a2 in [u for u in unary(("var", "x")) if u[1] in MUTATORS]:
                    for a3 in [u for u in unary(("var", "y")) if u[1] in MUTATORS]:
                        progs.append((("e", qb[b]), ("x", a1), ("y", a2), ("RETURN", a3)))
    # failing variants: a raising statement appended after the work was done
    out = list(progs)
    for i, p in enumerate(progs):
        f = FAILS[i % len(FAILS)]
        body = tuple((v if v != "RETURN" else "res", e) for v, e in p)
        out.append(body + (("RETURN", f),))
    return out


def windows(thorough):
    """(start, end) aware datetimes in several tz forms; events sit at T0 + 10 s * i"""
    tz1, tz2 = timezone(timedelta(hours=5, minutes=30)), timezone(-timedelta(hours=8))
    sec = lambda s, us=0: T0 + timedelta(seconds=s, microseconds=us)
    w = [
        (sec(-3600), sec(3600)),
        (sec(0), sec(0)),
        (sec(12), sec(12)),
        (sec(-100), sec(-50)),
        (sec(12), sec(47)),
        (sec(15), sec(15, 999)),
        (sec(3, 1), sec(31, 999999)),
        (sec(10).astimezone(tz1), sec(40).astimezone(tz2)),
        (sec(-3600).astimezone(tz2), sec(22).astimezone(tz1)),
        (sec(22), sec(3600)),
        (sec(70), sec(71)),
        (sec(500), sec(600)),
        (sec(92, 700), sec(95)),            # starts 200 us after the sub-ms event ended, same millisecond
        (sec(-100), sec(-1, 999500)),       # ends half a millisecond before the first event starts (inside the read's rounding slack)
        (sec(96, 400), sec(97, 100)),
        (sec(250), sec(260)),               # behind the short event, inside the long one written before it
    ]
    if thorough:
        for a in range(-5, 80, 17):
            for b in (a, a + 9, a + 33):
                w.append((sec(a, 500), sec(b, 500)))
        w += [(sec(0).astimezone(tz1), sec(80).astimezone(tz1)), (sec(5).astimezone(tz2), sec(6).astimezone(tz2))]
    return w


def seed(ds):
    ds.create_bucket("b1", "currentwindow", "c", "host1", created=T0, data={"k": {"n": [1]}})
    ds.create_bucket("b2", "afkstatus", "c", "host2", created=T0)
    ds.create_bucket("empty", "x", "c", "host1", created=T0)
    titles = [("Editor", "(2) foo.py - code"), ("Browser", "● news"), ("Editor", "foo.py - code"), ("Game", "Cemu - FPS: 59.2")]
    ds["b1"].insert([Event(timestamp=T0 + timedelta(seconds=10 * i), duration=timedelta(seconds=5 + i % 3), data={"app": a, "title": t, "url": f"http://www.ex{i % 2}.com/p?q={i}", "nested": {"l": [i]}}) for i, (a, t) in enumerate(titles * 2)])
    ds["b2"].insert([Event(timestamp=T0 + timedelta(seconds=25 * i), duration=timedelta(seconds=30), data={"status": "not-afk" if i % 2 == 0 else "afk"}) for i in range(4)])
    # an event that ends inside a millisecond (sub-ms duration): windows starting in that same
    # millisecond just after its end must not see it
    ds["b1"].insert(Event(timestamp=T0 + timedelta(seconds=90), duration=timedelta(seconds=2, microseconds=500), data={"app": "Sub", "title": "sub-ms end", "url": "http://s/"}))
    # events sharing one timestamp (ties): consecutive reads must agree on their order, too
    ds["b1"].insert([Event(timestamp=T0 + timedelta(seconds=33), duration=timedelta(0), data={"app": "Tie", "title": f"tie {k}", "url": "http://t/"}) for k in range(3)])
    ds["b2"].insert(Event(timestamp=T0 + timedelta(seconds=25), duration=timedelta(seconds=2), data={"status": "tie"}))
    # a long event written BEFORE a short one that it outlasts (insertion order is not end order): a window
    # behind the short one still touches the long one (seeded: the memory count walked backwards and stopped
    # at the first event that had ended before the window)
    ds["b2"].insert(Event(timestamp=T0 + timedelta(seconds=200), duration=timedelta(seconds=100), data={"status": "long"}))
    ds["b2"].insert(Event(timestamp=T0 + timedelta(seconds=210), duration=timedelta(seconds=1), data={"status": "short"}))


def full_dump(ds):
    """the whole store: every bucket row and every event row as the implementation holds them (raw
    tables / lists -- cheaper than reading through the API after every query, and it also sees rows
    the API would not show)"""
    return json.dumps([S.raw_buckets(ds), S.raw_rows(ds)], sort_keys=True, default=str)


def _unit(args):
    backend, progs = args
    ctx = _G["ctx"]
    ws = _G["windows"]
    u = Unit()
    ds = S.fresh(backend, ctx.wdir())
    seed(ds)
    base = full_dump(ds)
    for prog in progs:
        text = Q.pr_program(prog, Q.SPACED)
        names = {n for _, e in prog for n in _calls(e)}
        nt = bool(names & MUTATORS) or any(e in FAILS for _, e in prog)
        for wi, (a, b) in enumerate(ws):
            u.states += 1
            u.evaluations += 1
            u.transitions += 1
            if nt:
                u.nontrivial += 1
            try:
                query2.query("q", text, a, b, ds)
                outcome = "ok"
            except Exception as e:
                outcome = type(e).__name__
            u.hist["query_" + ("ok" if outcome == "ok" else "raised")] += 1
            after = full_dump(ds)
            if after != base:
                case = {"backend": backend, "text": text, "window": [a.isoformat(), b.isoformat()]}
                b0, a0 = json.loads(base), json.loads(after)
                changed = sorted({str(r[0]) for r in b0[1] + a0[1] if r not in a0[1] or r not in b0[1]} | {str(r[0]) for r in b0[0] + a0[0] if r not in a0[0] or r not in b0[0]})
                u.violation(f"{backend}:store-changed-by-query:{'failing' if outcome != 'ok' else 'successful'}", f"{backend}: query {text!r} ({outcome}) window {a.isoformat()}..{b.isoformat()} changed bucket(s) {changed}", case, size=len(text))
                S.close_all()
                ds = S.fresh(backend, ctx.wdir())
                seed(ds)
                base = full_dump(ds)
    # scoping after work was done in the same query: fetch, transform in place, fetch AGAIN -- the
    # second fetch must still equal a direct windowed read (a seeded per-query cache shared objects)
    for wi, (a, b) in enumerate(ws):
        for bid in ("b1", "b2"):
            want = [S.ev_tuple(e) for e in ds[bid].get(-1, a, b)]
            wantn = ds[bid].get_eventcount(a, b)
            for u1 in unary(("var", "e")):
                prog = (("e", ("call", "query_bucket", (S_(bid),))), ("x", u1), ("n", ("call", "query_bucket_eventcount", (S_(bid),))), ("RETURN", L_(("call", "query_bucket", (S_(bid),)), ("var", "n"))))
                text = Q.pr_program(prog, Q.SPACED)
                u.evaluations += 1
                u.transitions += 1
                u.states += 1
                u.nontrivial += 1 if u1[1] in MUTATORS else 0
                try:
                    res = query2.query("q", text, a, b, ds)
                    got, gotn = [S.ev_tuple(e) for e in res[0]], res[1]
                except Exception as e:
                    u.hist["refetch_raised_" + type(e).__name__] += 1
                    continue
                if got != want or gotn != wantn:
                    u.violation(f"{backend}:second-query_bucket-differs-from-windowed-read", f"{backend} {text!r} window {a.isoformat()}..{b.isoformat()}: second fetch {got[:2]}.. count {gotn}; direct read {want[:2]}.. count {wantn}", {"backend": backend, "text": text, "window": [a.isoformat(), b.isoformat()], "kind": "refetch", "bucket": bid}, size=len(text))
    # scoping: query_bucket / eventcount == direct windowed read
    for wi, (a, b) in enumerate(ws):
        for bid in ("b1", "b2", "empty"):
            u.evaluations += 2
            u.transitions += 2
            got = [S.ev_tuple(e) for e in query2.query("q", f'RETURN = query_bucket("{bid}");', a, b, ds)]
            want = [S.ev_tuple(e) for e in ds[bid].get(-1, a, b)]
            if got != want:
                u.violation(f"{backend}:query_bucket-differs-from-windowed-read", f"{backend} bucket {bid} window {a.isoformat()}..{b.isoformat()}: query_bucket {got} direct read {want}", {"backend": backend, "bucket": bid, "window": [a.isoformat(), b.isoformat()], "kind": "scope"}, size=wi)
            n = query2.query("q", f'RETURN = query_bucket_eventcount("{bid}");', a, b, ds)
            m = ds[bid].get_eventcount(a, b)
            # "the matching count": for windows whose edges are whole milliseconds and at least 2 ms away from
            # every event edge (no rounding slack involved) it is the number of events the read returns
            a_us, b_us = S.us_of(a), S.us_of(b)
            if a_us % 1000 == 0 and b_us % 1000 == 0:
                edges = [x for t in S.dump_bucket(ds, bid) for x in (t[1], t[1] + t[2])]
                if all(abs(x - w) >= 2000 for x in edges for w in (a_us, b_us)) and n != len(got):
                    u.violation(f"{backend}:eventcount-differs-from-number-of-events-read", f"{backend} bucket {bid} window {a.isoformat()}..{b.isoformat()}: query_bucket_eventcount {n}, query_bucket returns {len(got)} events", {"backend": backend, "bucket": bid, "window": [a.isoformat(), b.isoformat()], "kind": "scope"}, size=wi)
            if n != m:
                u.violation(f"{backend}:eventcount-differs-from-windowed-count", f"{backend} bucket {bid} window {a.isoformat()}..{b.isoformat()}: query_bucket_eventcount {n} direct count {m}", {"backend": backend, "bucket": bid, "window": [a.isoformat(), b.isoformat()], "kind": "scope"}, size=wi)
    # the store changes BETWEEN queries (insert, delete, replace, bucket deleted and re-created):
    # the next query must see exactly what a direct read sees (nothing remembered from earlier queries)
    ds2 = S.fresh(backend, ctx.wdir(), name="mut")
    seed(ds2)
    a, b = ws[0]
    steps = (
        ("insert", lambda: ds2["b1"].insert(Event(timestamp=T0 + timedelta(seconds=33), duration=timedelta(seconds=2), data={"app": "New", "title": "n", "url": "http://n/"}))),
        ("delete", lambda: ds2["b1"].delete(ds2["b1"].get(1)[0].id)),
        ("replace_last", lambda: ds2["b1"].replace_last(Event(timestamp=T0 + timedelta(seconds=71), duration=timedelta(seconds=1), data={"app": "R", "title": "r", "url": "http://r/"}))),
        ("delete_bucket", lambda: ds2.delete_bucket("b2")),
        ("recreate_bucket", lambda: (ds2.create_bucket("b2", "afkstatus", "c", "host2", created=T0), ds2["b2"].insert(Event(timestamp=T0, duration=timedelta(seconds=3), data={"status": "again"})))),
        ("insert_empty", lambda: ds2["empty"].insert(Event(timestamp=T0 + timedelta(seconds=1), duration=timedelta(seconds=1), data={"k": 1}))),
    )
    for name, fn in (("start", lambda: None),) + steps:
        fn()
        for bid in ("b1", "b2", "empty"):
            u.evaluations += 2
            u.transitions += 2
            u.states += 1
            u.nontrivial += 1
            present = bid in ds2.buckets()
            try:
                got = [S.ev_tuple(e) for e in query2.query("q", f'RETURN = query_bucket("{bid}");', a, b, ds2)]
                n = query2.query("q", f'RETURN = query_bucket_eventcount("{bid}");', a, b, ds2)
                outcome = "value"
            except Exception as e:
                outcome, got, n = type(e).__name__, None, None
            if present:
                want = [S.ev_tuple(e) for e in ds2[bid].get(-1, a, b)]
                m = ds2[bid].get_eventcount(a, b)
                if outcome != "value" or got != want or n != m:
                    u.violation(f"{backend}:query-after-{name}-differs-from-windowed-read", f"{backend}: after {name}, query_bucket({bid!r}) gave {outcome} {got and got[:2]} count {n}; direct read {want[:2]} count {m}", {"backend": backend, "kind": "mutation", "step": name, "bucket": bid}, size=len(name))
            elif outcome == "value":
                u.violation(f"{backend}:query-of-deleted-bucket-returned-a-value", f"{backend}: after {name}, query_bucket({bid!r}) returned {got and got[:2]} although the bucket does not exist", {"backend": backend, "kind": "mutation", "step": name, "bucket": bid}, size=len(name))
    if progs:
        u.sample({"backend": backend, "program": Q.pr_program(progs[len(progs) // 2], Q.SPACED), "windows": len(ws)}, cap=1)
    S.close_all()
    return u.result()


def _calls(e):
    if e[0] == "call":
        yield e[1]
        for a in e[2]:
            yield from _calls(a)
    elif e[0] == "list":
        for a in e[1]:
            yield from _calls(a)
    elif e[0] == "dict":
        for _, a in e[1]:
            yield from _calls(a)


def run(ctx):
    _G["ctx"] = ctx
    _G["windows"] = windows(ctx.thorough)
    progs = programs(ctx.thorough)
    units = []
    for backend in S.BACKENDS:
        for ch in chunked(progs, ctx.workers * (3 if backend == "peewee" else 1)):
            units.append((backend, ch))
    units.sort(key=lambda x: x[0] != "peewee")
    agg = Agg()
    for r in ctx.pmap(_unit, units):
        agg.add(r)
    agg.extra["programs"] = len(progs)
    agg.extra["windows"] = len(_G["windows"])
    ctx.selfcheck(agg.hist.get("query_ok", 0) > 0 and agg.hist.get("query_raised", 0) > 0, "vacuous: successful and failing queries were not both run")
    return agg


def run_case(ctx, case):
    _G["ctx"] = ctx
    ds = S.fresh(case["backend"], ctx.wdir())
    seed(ds)
    a, b = (datetime.fromisoformat(x) for x in case["window"])
    if case.get("kind") == "scope":
        bid = case["bucket"]
        got = [S.ev_tuple(e) for e in query2.query("q", f'RETURN = query_bucket("{bid}");', a, b, ds)]
        want = [S.ev_tuple(e) for e in ds[bid].get(-1, a, b)]
        n = query2.query("q", f'RETURN = query_bucket_eventcount("{bid}");', a, b, ds)
        m = ds[bid].get_eventcount(a, b)
        return {"query_bucket": got, "direct": want, "counts": [n, m], "violations": ([["query_bucket-differs", ""]] if got != want else []) + ([["count-differs", ""]] if n != m else [])}
    if case.get("kind") == "refetch":
        bid = case["bucket"]
        want = [S.ev_tuple(e) for e in ds[bid].get(-1, a, b)]
        res = query2.query("q", case["text"], a, b, ds)
        got = [S.ev_tuple(e) for e in res[0]]
        return {"second_fetch": got, "direct": want, "violations": [] if got == want and res[1] == ds[bid].get_eventcount(a, b) else [["second-query_bucket-differs", ""]]}
    base = full_dump(ds)
    try:
        query2.query("q", case["text"], a, b, ds)
        out = "ok"
    except Exception as e:
        out = type(e).__name__
    after = full_dump(ds)
    return {"outcome": out, "violations": [] if after == base else [["store-changed-by-query", "dump differs"]]}
