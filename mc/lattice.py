"""Integer time lattices and their embedding into real datetimes; enumerators of
interval lists.  Oracles work on the integer coordinates."""
import itertools
from datetime import timedelta

from aw_core.models import Event


class Emb:
    """lattice point k  ->  base + k*unit ; unit in microseconds"""

    def __init__(self, base, unit_us=1_000_000):
        self.base = base
        self.unit_us = unit_us
        self.unit = timedelta(microseconds=unit_us)

    def t(self, k):
        return self.base + timedelta(microseconds=round(k * self.unit_us))

    def d(self, k):
        return timedelta(microseconds=round(k * self.unit_us))

    def ev(self, s, d, data=None, id=None):
        if not isinstance(data, dict):
            data = {} if data is None else {"label": data}
        return Event(id=id, timestamp=self.t(s), duration=self.d(d), data=dict(data))

    # inverse (exact when on-lattice; returns a float otherwise)
    def k_of(self, dt):
        us = (dt - self.base) // timedelta(microseconds=1)
        q, r = divmod(us, self.unit_us)
        return q if r == 0 else us / self.unit_us

    def kd_of(self, td):
        us = td // timedelta(microseconds=1)
        q, r = divmod(us, self.unit_us)
        return q if r == 0 else us / self.unit_us

    def iv(self, e):
        """(start, end) of an event in lattice coordinates"""
        s = self.k_of(e.timestamp)
        return (s, s + self.kd_of(e.duration))


def intervals(N, durs=None, min_d=0):
    """all (s, d) with 0 <= s, s+d <= N"""
    out = []
    for s in range(N + 1):
        for d in range(min_d, N - s + 1):
            if durs is None or d in durs:
                out.append((s, d))
    return out


def overlap_pos(a, b):
    """two (s,d) intervals share positive-length time"""
    return min(a[0] + a[1], b[0] + b[1]) - max(a[0], b[0]) > 0


def nonoverlapping_sets(N, n, allow_zero=True, distinct_starts=False, durs=None):
    """all sets (sorted tuples) of <= n intervals on 0..N, pairwise without
    positive-length overlap (zero-length events may sit anywhere, duplicates of
    zero-length events allowed as multisets when allow_zero)"""
    ivs = intervals(N, durs, 0 if allow_zero else 1)
    out = [()]
    for k in range(1, n + 1):
        for comb in itertools.combinations_with_replacement(ivs, k):
            ok = True
            for i in range(k):
                for j in range(i + 1, k):
                    a, b = comb[i], comb[j]
                    if overlap_pos(a, b):
                        ok = False
                    elif a == b and a[1] > 0:
                        ok = False
                    elif distinct_starts and a[0] == b[0]:
                        ok = False
                    if not ok:
                        break
                if not ok:
                    break
            if ok:
                out.append(comb)
    return out


def arbitrary_multisets(N, n, durs=None):
    ivs = intervals(N, durs)
    out = [()]
    for k in range(1, n + 1):
        out.extend(itertools.combinations_with_replacement(ivs, k))
    return out


def cells(ivs):
    """set of half-open unit cells [k, k+1) covered by positive-length intervals"""
    c = set()
    for s, d in ivs:
        c.update(range(s, s + d))
    return c


def chunked(seq, n):
    seq = list(seq)
    size = max(1, (len(seq) + n - 1) // n)
    return [seq[i : i + size] for i in range(0, len(seq), size)]
