"""Explorer S: level-synchronous breadth-first search over operation histories of
the REAL implementation, deduplicated on a canonical form of the implementation's
own state, run to fixpoint.  Every transition (history + one op) is executed on
a fresh real store and checked against the reference model before dedup."""
import time

from mc.core import Agg


def bfs(ctx, expand, roots, cap_s=None, max_depth=None, label="", max_states=200000):
    """expand(hist) -> dict(unit result, 'self': canon, 'path': hist, 'succ': [(canon, hist)])
    roots: list of initial histories (tuples).  Returns (Agg, seen dict canon->hist)."""
    agg = Agg()
    seen = {}
    frontier = list(roots)
    depth = 0
    first = True
    t0 = time.time()
    while frontier:
        if max_depth is not None and depth >= max_depth:
            agg.exhaustive = False
            agg.caps.append(f"{label}: depth cap {max_depth} reached with {len(frontier)} unexpanded states")
            break
        if cap_s is not None and time.time() - t0 > cap_s:
            agg.exhaustive = False
            agg.caps.append(f"{label}: wall cap {cap_s}s hit at depth {depth} with {len(frontier)} unexpanded states (all depths < {depth} fully expanded)")
            break
        if len(seen) > max_states:
            agg.exhaustive = False
            agg.caps.append(f"{label}: state cap {max_states} exceeded at depth {depth} (state space not closing: hidden state that grows without bound?)")
            break
        cand = []
        for r in ctx.pmap(expand, frontier, chunksize=max(1, len(frontier) // (ctx.workers * 8))):
            agg.add(r)
            if first:
                seen.setdefault(r["self"], r["path"])
            cand.extend(r["succ"])
        first = False
        cand.sort(key=lambda kh: (repr(kh[0]), kh[1]))
        new = []
        for k, h in cand:
            if k not in seen:
                seen[k] = h
                new.append(h)
        frontier = sorted(new)
        depth += 1
        agg.max_depth = depth if new else agg.max_depth
    agg.states = len(seen)
    return agg, seen
