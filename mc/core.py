"""Common machinery: context, worker pool, aggregation, evidence, known findings."""
import collections
import hashlib
import json
import multiprocessing as mp
import os
import sys
import time
from datetime import datetime, timedelta, timezone

HERE = os.path.dirname(os.path.dirname(os.path.abspath(__file__)))
EVIDENCE_DIR = os.path.join(HERE, "evidence")
REPLAY_DIR = os.path.join(HERE, "replays")
FINDINGS_FILE = os.path.join(HERE, "known_findings.json")
EVIDENCE_SCHEMA = "/root/.vp/EVIDENCE.schema.json"

# Embeddings of the integer lattices into real time, selected by VERIF_SEED.
# The seed never selects WHICH cases run (enumeration is always the complete
# bounded space) -- only where on the real time line the lattice sits, which
# label strings are used and in which order partitions are handed to workers.
BASES = [
    datetime(2020, 1, 1, 12, 0, 0, tzinfo=timezone.utc),
    datetime(2001, 9, 9, 1, 46, 40, tzinfo=timezone.utc),
    datetime(2038, 1, 19, 3, 14, 7, tzinfo=timezone.utc),
    datetime(2016, 2, 29, 23, 59, 58, tzinfo=timezone.utc),
    datetime(1999, 12, 31, 23, 59, 57, tzinfo=timezone.utc),
    datetime(2069, 7, 20, 20, 17, 40, tzinfo=timezone.utc),
    datetime(1970, 1, 2, 0, 0, 0, tzinfo=timezone.utc),
]
LABELSETS = [("X", "Y", "Z"), ("a,b", "c)d", "e"), ("é", "ü]", "\"q"), ("x", "x ", "X")]


class Ctx:
    def __init__(self, prop, tier, seed, scratch, workers, repo):
        self.prop = prop
        self.tier = tier
        self.seed = seed
        self.scratch = scratch
        self.workers = max(1, workers)
        self.repo = repo
        self.t0 = time.time()
        self.selfcheck_failures = []
        self.base = BASES[seed % len(BASES)]
        self.labels = LABELSETS[(seed // len(BASES)) % len(LABELSETS)] if seed else LABELSETS[0]

    @property
    def thorough(self):
        return self.tier == "thorough"

    def elapsed(self):
        return time.time() - self.t0

    def wdir(self):
        """private scratch directory of the calling (worker) process"""
        d = os.path.join(self.scratch, f"w{os.getpid()}")
        os.makedirs(d, exist_ok=True)
        return d

    def selfcheck(self, ok, msg):
        if not ok:
            self.selfcheck_failures.append(msg)

    # ---- parallel map over work units (fork once per call) -------------
    def pmap(self, func, units, chunksize=1, ordered=False):
        units = list(units)
        func = ImplGuard(func, self.repo, self.prop)
        if self.seed and not ordered:
            # seed only permutes the order in which partitions are taken
            k = self.seed % max(1, len(units))
            units = units[k:] + units[:k]
        if self.workers <= 1 or len(units) <= 1:
            for u in units:
                yield func(u)
            return
        mpctx = mp.get_context("fork")
        with mpctx.Pool(min(self.workers, len(units))) as pool:
            it = pool.imap(func, units, chunksize) if ordered else pool.imap_unordered(func, units, chunksize)
            for r in it:
                yield r


class ImplGuard:
    """Safety net around a work unit: an exception that comes OUT OF THE IMPLEMENTATION (the frame
    below the last harness frame is a file of the repository under test) while a unit drives it with
    legal operations is a violation, not a harness crash.  The units catch what they expect to be
    raised; this catches the rest (seeded: a handle cache shared between Datastore objects made a
    later store use a closed connection).  Exceptions raised by harness code itself still propagate."""

    def __init__(self, func, repo, prop):
        self.func = func
        self.repo = os.path.realpath(repo) + os.sep
        self.prop = prop

    def __call__(self, x):
        try:
            return self.func(x)
        except Exception as e:
            import traceback

            tb = traceback.extract_tb(e.__traceback__)
            verif = os.path.dirname(os.path.dirname(os.path.abspath(__file__))) + os.sep
            last_h = max((i for i, fr in enumerate(tb) if os.path.realpath(fr.filename).startswith(verif)), default=None)
            if last_h is None or last_h + 1 >= len(tb) or not os.path.realpath(tb[last_h + 1].filename).startswith(self.repo):
                raise
            site = tb[last_h]
            inner = tb[-1]
            rel = os.path.realpath(inner.filename)
            rel = rel[len(self.repo):] if rel.startswith(self.repo) else os.path.basename(rel)
            key = f"implementation-raised:{type(e).__name__}@{rel}:{inner.name}"
            what = f"{type(e).__name__}: {str(e)[:200]} raised from {rel}:{inner.lineno} ({inner.name}) while the harness was executing `{(site.line or '').strip()[:120]}` ({os.path.basename(site.filename)}:{site.lineno}) in work unit {repr(x)[:300]}"
            v = {"key": key, "what": what, "case": {"kind": "impl-raised", "unit": repr(x)[:2000], "func": f"{self.func.__module__}.{getattr(self.func, '__name__', '?')}"}, "size": len(repr(x)), "count": 1}
            return {"violations": [v], "exhaustive": False, "caps": ["a work unit was abandoned because the implementation raised"], "self": ("abandoned", repr(x)[:200]), "path": x if isinstance(x, tuple) else (), "succ": []}


class Agg:
    """What a run covered. All counts are incremented by the explorers."""

    def __init__(self):
        self.evaluations = 0      # implementation executions compared with the oracle
        self.states = 0           # distinct canonical states / distinct canonical cases
        self.transitions = 0      # oracle-checked applications of an operation/transform
        self.traces = 0           # histories / cases replayed on the real implementation
        self.nontrivial = 0       # distinct cases exercising the hard part (rule says how)
        self.hist = collections.Counter()
        self.samples = []
        self.violations = []      # dicts: key, what, case, size
        self.exhaustive = True
        self.caps = []
        self.extra = {}
        self.max_depth = 0

    def add(self, r):
        """merge a unit result (dict produced by Unit.result())"""
        self.evaluations += r.get("evaluations", 0)
        self.states += r.get("states", 0)
        self.transitions += r.get("transitions", 0)
        self.traces += r.get("traces", 0)
        self.nontrivial += r.get("nontrivial", 0)
        self.hist.update(r.get("hist", {}))
        for s in r.get("samples", []):
            if len(self.samples) < 12:
                self.samples.append(s)
        self.violations.extend(r.get("violations", []))
        if not r.get("exhaustive", True):
            self.exhaustive = False
        self.caps.extend(r.get("caps", []))
        self.max_depth = max(self.max_depth, r.get("max_depth", 0))


class Unit:
    """Per-work-unit accumulator used inside workers; .result() is picklable."""

    MAXV = 40

    def __init__(self):
        self.evaluations = 0
        self.states = 0
        self.transitions = 0
        self.traces = 0
        self.nontrivial = 0
        self.hist = collections.Counter()
        self.samples = []
        self.violations = {}
        self.nviol = 0
        self.extra = {}

    def violation(self, key, what, case, size=None):
        self.nviol += 1
        if size is None:
            size = len(json.dumps(case, default=str))
        old = self.violations.get(key)
        if old is None or (size, json.dumps(case, sort_keys=True, default=str)) < (old["size"], json.dumps(old["case"], sort_keys=True, default=str)):
            if old is None and len(self.violations) >= self.MAXV:
                return
            self.violations[key] = {"key": key, "what": what[:700], "case": case, "size": size, "count": (old["count"] if old else 0) + 1}
        else:
            old["count"] += 1

    def sample(self, s, cap=2):
        if len(self.samples) < cap:
            self.samples.append(s)

    def result(self):
        return {
            "evaluations": self.evaluations,
            "states": self.states,
            "transitions": self.transitions,
            "traces": self.traces,
            "nontrivial": self.nontrivial,
            "hist": dict(self.hist),
            "samples": self.samples,
            "violations": list(self.violations.values()),
            "extra": self.extra,
        }


# ---------------------------------------------------------------------------
def load_findings():
    if not os.path.exists(FINDINGS_FILE):
        return []
    with open(FINDINGS_FILE) as f:
        return json.load(f).get("findings", [])


def finalize(ctx, mod, agg, wall, write_evidence=True):
    prop = ctx.prop
    findings = [f for f in load_findings() if f.get("property") == prop]
    open_keys = {f["key"]: f for f in findings if f.get("status") == "open"}

    # group violations by key, keep the smallest case per key
    bykey = {}
    for v in agg.violations:
        o = bykey.get(v["key"])
        cnt = v.get("count", 1) + (o["count"] if o else 0)
        if o is None or (v["size"], json.dumps(v["case"], sort_keys=True, default=str)) < (o["size"], json.dumps(o["case"], sort_keys=True, default=str)):
            bykey[v["key"]] = dict(v)
        bykey[v["key"]]["count"] = cnt

    known_hit, unlisted = [], []
    for key in sorted(bykey):
        (known_hit if key in open_keys else unlisted).append(bykey[key])

    lines = []
    for v in known_hit:
        f = open_keys[v["key"]]
        lines.append(f"KNOWN-FINDING: property={prop} {f['key']}: {f.get('what', v['what'])} (seen {v['count']}x this run)")
    rc = 0
    replays = []
    for v in unlisted:
        os.makedirs(os.path.join(REPLAY_DIR, prop), exist_ok=True)
        body = {"property": prop, "key": v["key"], "what": v["what"], "tier": ctx.tier, "seed": ctx.seed, "case": v["case"], "count_in_run": v["count"]}
        sha = hashlib.sha1(json.dumps([v["key"], v["case"]], sort_keys=True, default=str).encode()).hexdigest()[:12]
        path = os.path.join(REPLAY_DIR, prop, f"{sha}.json")
        with open(path, "w") as f:
            json.dump(body, f, indent=1, default=str)
        replays.append(path)
        lines.append(f"VIOLATION property={prop} replay={path}  # {v['key']}: {v['what']} ({v['count']}x)")
        rc = 1
    for msg in ctx.selfcheck_failures:
        # with a violation on the table a thin exploration is a consequence (units abandoned, search cut short), not a harness problem
        lines.append(f"HARNESS-SELFCHECK-FAILED property={prop}: {msg}" if rc == 0 else f"NOTE property={prop}: exploration was cut short by the violation(s) above ({msg})")
    if ctx.selfcheck_failures and rc == 0:
        rc = 2

    cov = {
        "states": int(agg.states),
        "transitions": int(agg.transitions),
        "traces_validated_against_impl": int(agg.traces),
        "evaluations": int(agg.evaluations),
        "distinct_nontrivial": int(agg.nontrivial),
        "rule": getattr(mod, "RULE", ""),
        "samples": agg.samples[:12] or ["(no sample recorded)"],
        "exhaustive": bool(agg.exhaustive and not agg.caps),
        "caps_hit": agg.caps,
        "max_depth": agg.max_depth,
        "outcome_histogram": {k: int(v) for k, v in sorted(agg.hist.items())},
        "bounds": getattr(mod, "BOUNDS", {}).get(ctx.tier, getattr(mod, "BOUNDS", {})),
        "known_findings_seen": [v["key"] for v in known_hit],
        "unlisted_violation_keys": [v["key"] for v in unlisted],
        "embedding": {"base_instant": ctx.base.isoformat(), "labels": list(ctx.labels)},
        "workers": ctx.workers,
        "repo": ctx.repo,
    }
    cov.update(agg.extra)
    ev = {
        "property_id": prop,
        "tier": ctx.tier,
        "seed": int(ctx.seed),
        "level": "model_checking",
        "coverage": cov,
        "assumptions": list(getattr(mod, "ASSUMPTIONS", [])),
        "wall_s": round(wall, 3),
        "violations": len(unlisted),
    }
    if write_evidence:
        os.makedirs(EVIDENCE_DIR, exist_ok=True)
        try:
            import jsonschema

            with open(EVIDENCE_SCHEMA) as f:
                jsonschema.validate(ev, json.load(f))
        except FileNotFoundError:
            pass
        except Exception as e:  # schema violation: harness bug
            lines.append(f"HARNESS-SELFCHECK-FAILED property={prop}: evidence does not validate: {e}")
            rc = rc or 2
        with open(os.path.join(EVIDENCE_DIR, f"{prop}.json"), "w") as f:
            json.dump(ev, f, indent=1, default=str, ensure_ascii=False)
            f.write("\n")
    print(
        f"[{prop} {ctx.tier} seed={ctx.seed}] states={agg.states} transitions={agg.transitions} "
        f"impl-executions={agg.evaluations} nontrivial={agg.nontrivial} exhaustive={cov['exhaustive']} "
        f"known={len(known_hit)} unlisted={len(unlisted)} wall={wall:.1f}s"
    )
    for ln in lines:
        print(ln)
    sys.stdout.flush()
    return rc
