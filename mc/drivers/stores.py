"""Fresh real stores (memory / sqlite / peewee) through the real constructors,
full-state dumps through the public API and raw table dumps for canonical forms."""
import json
import os
from datetime import datetime, timedelta, timezone

from aw_core.models import Event
from aw_datastore import Datastore
from aw_datastore.storages import MemoryStorage, PeeweeStorage, SqliteStorage

BACKENDS = ("memory", "sqlite", "peewee")
EPOCH = datetime(1970, 1, 1, tzinfo=timezone.utc)
US = timedelta(microseconds=1)


def us_of(dt):
    """exact integer microseconds since the epoch of an aware datetime"""
    return (dt - EPOCH) // US


def dus_of(td):
    return td // US


def dt_of(us):
    return EPOCH + timedelta(microseconds=us)


def canon_data(d):
    return json.dumps(d, sort_keys=True, ensure_ascii=True)


_counter = [0]
_open = []


def close_all():
    """close every store this process opened (peewee uses one module-global db)"""
    from aw_datastore.storages import peewee as pw

    while _open:
        ds = _open.pop()
        st = ds.storage_strategy
        try:
            if isinstance(st, SqliteStorage):
                st.conn.close()
        except Exception:
            pass
    try:
        if not pw._db.is_closed():
            pw._db.close()
    except Exception:
        # e.g. "Attempting to close database while transaction is open" (a transaction left
        # open by the code under test): drop the connection the hard way so that the next
        # store starts clean -- the harness must never die on the implementation's state
        try:
            conn = pw._db.connection()
            try:
                conn.rollback()
            except Exception:
                pass
            conn.close()
        except Exception:
            pass
        try:
            pw._db._state.reset()
        except Exception:
            pass


def _rm(path):
    for suf in ("", "-wal", "-shm", "-journal"):
        try:
            os.unlink(path + suf)
        except FileNotFoundError:
            pass


def fresh(backend, wdir, name="db", keep_open=False, **kw):
    """A brand-new empty store of the given backend via the real constructor."""
    if not keep_open:
        close_all()
    if backend == "memory":
        ds = Datastore(MemoryStorage, testing=True)
    elif backend == "sqlite":
        path = os.path.join(wdir, f"{name}.sqlite")
        _rm(path)
        ds = Datastore(SqliteStorage, testing=True, filepath=path, **kw)
        ds._verif_path = path
    elif backend == "peewee":
        path = os.path.join(wdir, f"{name}.peewee")
        _rm(path)
        ds = Datastore(PeeweeStorage, testing=True, filepath=path)
        ds._verif_path = path
    else:
        raise ValueError(backend)
    ds._verif_backend = backend
    _open.append(ds)
    return ds


def reopen(ds, flush=False):
    """open the same file again with the real constructor (a 'restart'); flush=True commits what the
    lazily committing store has buffered first (an orderly shutdown rather than a crash)"""
    backend, path = ds._verif_backend, ds._verif_path
    if flush and backend == "sqlite":
        ds.storage_strategy.commit()
    close_all()
    if backend == "sqlite":
        n = Datastore(SqliteStorage, testing=True, filepath=path)
    else:
        n = Datastore(PeeweeStorage, testing=True, filepath=path)
    n._verif_backend, n._verif_path = backend, path
    _open.append(n)
    return n


def mk_bucket(ds, bid, **kw):
    args = dict(type="t-" + bid, client="c-" + bid, hostname="h-" + bid, created=datetime(2019, 5, 5, 5, 5, 5, tzinfo=timezone.utc))
    args.update(kw)
    return ds.create_bucket(bid, **args)


def ev_tuple(e):
    return (e.id, us_of(e.timestamp), dus_of(e.duration), canon_data(e.data))


def dump_bucket(ds, bid):
    """list of (id, start_us, dur_us, data_json) as returned by get(-1), in returned order"""
    return [ev_tuple(e) for e in ds[bid].get(-1)]


def dump_all(ds):
    """{bucket_id: (metadata_json, sorted event tuples)} for every bucket"""
    out = {}
    for bid in sorted(ds.buckets()):
        md = ds[bid].metadata()
        out[bid] = (json.dumps(md, sort_keys=True, default=str), sorted(dump_bucket(ds, bid), key=lambda t: (t[0] is None, t)))
    return out


def raw_rows(ds):
    """The implementation's own event table / lists, in storage order:
    list of (bucket_key, id, a, b, datastr). Used only for canonical forms."""
    st = ds.storage_strategy
    b = ds._verif_backend
    if b == "memory":
        rows = []
        for bid in st.db:
            for e in st.db[bid]:
                rows.append((bid, e.id, us_of(e.timestamp), dus_of(e.duration), canon_data(e.data)))
        return rows
    if b != "memory":
        try:
            return _raw_rows_sql(ds, st, b)
        except Exception:
            # the physical schema is not what this harness knows (a migration / refactor): fall back
            # to the public API -- coarser (reads flush buffered writes) but never a harness failure
            rows = []
            for bid in sorted(ds.buckets()):
                for t in sorted(dump_bucket(ds, bid), key=lambda t: (t[0] is None, t[0])):
                    rows.append((bid, t[0], t[1], t[2], t[3]))
            return rows


def _raw_rows_sql(ds, st, b):
    if b == "sqlite":
        # no commit here: the store's own connection sees its open transaction, and an
        # observation must not flush buffered writes (a seeded rollback-on-error was masked by it)
        return [tuple(r) for r in st.conn.execute("SELECT bucketrow, id, starttime, endtime, datastr FROM events ORDER BY id")]
    cur = st.db.execute_sql("SELECT bucket_id, id, timestamp, duration, datastr FROM eventmodel ORDER BY id")
    return [(r[0], r[1], str(r[2]), str(r[3]), r[4]) for r in cur.fetchall()]


def raw_buckets(ds):
    st = ds.storage_strategy
    b = ds._verif_backend
    if b == "memory":
        return [(bid, json.dumps(st._metadata.get(bid), sort_keys=True, default=str)) for bid in st.db]
    try:
        if b == "sqlite":
            return [tuple(r) for r in st.conn.execute("SELECT rowid, id, name, type, client, hostname, created, datastr FROM buckets ORDER BY rowid")]
        cur = st.db.execute_sql("SELECT key, id, name, type, client, hostname, created, datastr FROM bucketmodel ORDER BY key")
        return [tuple(r) for r in cur.fetchall()]
    except Exception:
        return [(bid, bid, json.dumps(md, sort_keys=True, default=str)) for bid, md in sorted(ds.buckets().items())]


def canon_rows(ds):
    """Canonical form of the implementation state: raw rows with event ids and
    bucket keys replaced by their rank (order-preserving renaming); allocator
    counters are not included (see DESIGN 3.2 for the soundness argument)."""
    rows = raw_rows(ds)
    bks = raw_buckets(ds)
    if ds._verif_backend == "memory":
        # ids are per bucket: rank within the bucket
        out = []
        for bid, _ in bks:
            ids = sorted({r[1] for r in rows if r[0] == bid})
            rk = {i: n for n, i in enumerate(ids)}
            out.append((bid, tuple((rk[r[1]],) + r[2:] for r in rows if r[0] == bid)))
        return (tuple(bks), tuple(out))
    ids = sorted({r[1] for r in rows})
    rk = {i: n for n, i in enumerate(ids)}
    bk = {k[0]: n for n, k in enumerate(bks)}
    crow = tuple((bk.get(r[0], ("?", r[0])), rk[r[1]]) + tuple(r[2:]) for r in rows)
    cb = tuple((bk[k[0]],) + tuple(k[1:]) for k in bks)
    return (cb, crow)


def id_shape(ds):
    """Finite abstraction of the id allocator state that rank-renaming throws away:
    for the sorted live ids, one bit per position saying whether there is a gap
    before it (first id vs 0 / vs the previous id), plus one bit for a hidden
    allocator counter above the largest live id (sqlite AUTOINCREMENT).
    Two states with equal rank-renamed rows but different shapes are kept apart,
    so an allocator that depends on absolute ids / list length / gaps is explored
    from each shape (refinement only splits states: always sound)."""
    rows = raw_rows(ds)
    b = ds._verif_backend
    if b == "memory":
        out = []
        for bid in ds.storage_strategy.db:
            ids = sorted(r[1] for r in rows if r[0] == bid)
            prev = -1
            bits = []
            for i in ids:
                bits.append(1 if i - prev > 1 else 0)
                prev = i
            out.append((bid, tuple(bits)))
        return tuple(out)
    ids = sorted(r[1] for r in rows)
    prev = 0
    bits = []
    for i in ids:
        bits.append(1 if i - prev > 1 else 0)
        prev = i
    hidden = 0
    if b == "sqlite":
        r = ds.storage_strategy.conn.execute("SELECT seq FROM sqlite_sequence WHERE name = 'events'").fetchone()
        if r and ids and r[0] > ids[-1]:
            hidden = 1
        elif r and not ids and r[0] > 0:
            hidden = 1
    return (tuple(bits), hidden)


def canon_shaped(ds):
    return (canon_rows(ds), id_shape(ds))


def _plain(x, depth=0):
    if isinstance(x, (str, int, float, bool, type(None))):
        return x
    if depth > 4:
        return "..."
    if isinstance(x, dict):
        return tuple(sorted((repr(k), _plain(v, depth + 1)) for k, v in x.items()))
    if isinstance(x, (set, frozenset)):
        return tuple(sorted(repr(_plain(v, depth + 1)) for v in x))
    if isinstance(x, (list, tuple)):
        return tuple(_plain(v, depth + 1) for v in x)
    return None  # connections, loggers, datetimes: not part of the canonical form


def hidden_state(ds):
    """Every plain attribute of the storage object and the Datastore handle cache
    (anything a refactor might add: id->rowid caches, counters, memo dicts). It is
    appended to canonical forms so that implementation state living outside the
    tables splits states instead of being merged away."""
    st = ds.storage_strategy
    skip = {"db", "_metadata", "last_commit", "logger", "conn"}
    d = dict(vars(st))
    bk = d.get("bucket_keys")
    if isinstance(bk, dict) and all(isinstance(v, int) for v in bk.values()):
        # peewee's id -> row key cache: row keys grow without bound under alternating
        # delete/create of two buckets; rank-rename like the tables themselves
        rk = {v: n for n, v in enumerate(sorted(set(bk.values())))}
        d["bucket_keys"] = {k: rk[v] for k, v in bk.items()}
    items = tuple(sorted((k, _plain(v)) for k, v in d.items() if k not in skip))
    return (items, tuple(sorted(ds.bucket_instances)))


def canon_full(ds, shaped=False):
    return (canon_rows(ds), id_shape(ds) if shaped else None, hidden_state(ds))
