"""Explorer-K drivers: SQL statement tracer, crash imaging of the database files,
virtual clock for the lazily-committing store."""
import hashlib
import os
import shutil
import sqlite3
from datetime import datetime as _real_datetime
from datetime import timedelta, timezone

import iso8601
from aw_datastore import Datastore
from aw_datastore.storages import SqliteStorage
from aw_datastore.storages import sqlite as sqlite_mod
from mc.drivers import stores as S

VBASE = _real_datetime(2021, 6, 1, 12, 0, 0)
VNOW = [0.0]  # virtual seconds since VBASE
LOCAL_OFFSET = timedelta(hours=-5)


class VirtualDatetime(_real_datetime):
    """datetime whose now() reads the explorer's virtual clock"""

    @classmethod
    def now(cls, tz=None):
        # VBASE is UTC; the virtual machine's LOCAL zone is UTC-5, so naive local time and naive UTC differ
        # (seeded: last_commit stamped in naive UTC, age measured against naive local now() -- invisible
        # on a machine whose local zone is UTC)
        t = VBASE + timedelta(seconds=VNOW[0])
        if tz is not None:
            return t.replace(tzinfo=timezone.utc).astimezone(tz)
        return t + LOCAL_OFFSET

    @classmethod
    def utcnow(cls):
        return VBASE + timedelta(seconds=VNOW[0])


def own_clock():
    """replace the `datetime` name the sqlite storage module looks up at call time"""
    sqlite_mod.datetime = VirtualDatetime
    VNOW[0] = 0.0


def release_clock():
    sqlite_mod.datetime = _real_datetime


def clock_owned_selfcheck(ds):
    """after commit(), the storage's notion of 'last flush' must be the virtual now
    (soft: skipped when the attribute does not exist)"""
    st = ds.storage_strategy
    if not hasattr(st, "last_commit") or not hasattr(st, "commit"):
        return True, "skipped (no last_commit attribute)"
    VNOW[0] += 123.0
    st.commit()
    lc = st.last_commit
    if getattr(lc, "tzinfo", None) is not None:
        lc = lc.astimezone(timezone.utc).replace(tzinfo=None)
    # owned = the storage's notion of "last flush" follows the virtual clock (in whatever zone convention)
    ok = abs((lc - (VBASE + timedelta(seconds=VNOW[0]))).total_seconds()) <= 14 * 3600 and abs(((lc - VBASE).total_seconds() - VNOW[0]) % 3600) < 1e-6
    return ok, f"last_commit={st.last_commit} virtual now (UTC)={VBASE + timedelta(seconds=VNOW[0])}"


def connection_of(ds):
    b = ds._verif_backend
    if b == "sqlite":
        return ds.storage_strategy.conn
    from aw_datastore.storages import peewee as pw

    return pw._db.connection()


class Tracer:
    """calls hook(statement_text) at the instant each SQL statement starts"""

    def __init__(self, ds):
        self.conn = connection_of(ds)
        self.hook = None
        self.nstmt = 0
        self.commits = 0
        self.conn.set_trace_callback(self._cb)

    def _cb(self, stmt):
        self.nstmt += 1
        if stmt.strip().upper().startswith("COMMIT"):
            self.commits += 1
        if self.hook is not None:
            self.hook(stmt)

    def detach(self):
        try:
            self.conn.set_trace_callback(None)
        except Exception:
            pass


def _read(path):
    try:
        with open(path, "rb") as f:
            return f.read()
    except FileNotFoundError:
        return None


SUFFIXES = ("", "-wal", "-journal")


def file_bytes(path):
    return tuple(_read(path + s) for s in SUFFIXES)


def write_image(blobs, imgpath):
    for s, b in zip(SUFFIXES + ("-shm",), tuple(blobs) + (None,)):
        p = imgpath + s
        if b is None:
            try:
                os.unlink(p)
            except FileNotFoundError:
                pass
        else:
            with open(p, "wb") as f:
                f.write(b)


def dump_image(backend, imgpath):
    """open the image the way a restarted process would and return the set-like list of items
    ('bk', id, type, client, hostname, created_us, name, data_json) / ('ev', bucket, ts_us, dur_us, data_json)"""
    items = []
    if backend == "sqlite":
        ds = Datastore(SqliteStorage, testing=True, filepath=imgpath)
        try:
            for bid, md in ds.buckets().items():
                items.append(bk_item(md))
                for e in ds[bid].get(-1):
                    items.append(("ev", bid, S.us_of(e.timestamp), S.dus_of(e.duration), S.canon_data(e.data)))
        finally:
            ds.storage_strategy.conn.close()
        return items
    # peewee keeps one module-global database: read the image with a plain connection
    conn = sqlite3.connect(imgpath)
    try:
        import json

        keys = {}
        for key, bid, name, typ, client, host, created, datastr in conn.execute("SELECT key, id, name, type, client, hostname, created, datastr FROM bucketmodel"):
            keys[key] = bid
            items.append(("bk", bid, typ, client, host, S.us_of(iso8601.parse_date(created)), name, S.canon_data(json.loads(datastr) if datastr else {})))
        for bkey, ts, dur, datastr in conn.execute("SELECT bucket_id, timestamp, duration, datastr FROM eventmodel"):
            t = iso8601.parse_date(ts)
            items.append(("ev", keys.get(bkey, f"?{bkey}"), S.us_of(t), round(float(dur) * 1_000_000), S.canon_data(json.loads(datastr))))
    finally:
        conn.close()
    return items


def bk_item(md):
    c = md["created"]
    return ("bk", md["id"], md["type"], md["client"], md["hostname"], S.us_of(iso8601.parse_date(c) if isinstance(c, str) else c), md.get("name"), S.canon_data(md.get("data") or {}))


def sig_of(items):
    """order-independent, multiplicity-aware signature"""
    return sum(int.from_bytes(hashlib.blake2b(repr(i).encode(), digest_size=8).digest(), "big") for i in items) & ((1 << 80) - 1)


def item_sig(i):
    return int.from_bytes(hashlib.blake2b(repr(i).encode(), digest_size=8).digest(), "big")


class Imager:
    def __init__(self, backend, dbpath, imgdir):
        self.backend = backend
        self.dbpath = dbpath
        self.imgdir = imgdir
        os.makedirs(imgdir, exist_ok=True)
        self.cache = {}
        self.n_images = 0
        self.n_opened = 0

    def image(self):
        """-> (signature, items) of what a process started now would find"""
        blobs = file_bytes(self.dbpath)
        key = hashlib.blake2b(b"|".join(b"\x00" if b is None else hashlib.blake2b(b, digest_size=16).digest() for b in blobs), digest_size=16).digest()
        self.n_images += 1
        hit = self.cache.get(key)
        if hit is not None:
            return hit
        self.n_opened += 1
        img = os.path.join(self.imgdir, "img.db")
        write_image(blobs, img)
        items = dump_image(self.backend, img)
        r = (sig_of(items), items)
        self.cache[key] = r
        return r
