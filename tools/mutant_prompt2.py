"""wave-2 prompt: python3 tools/mutant_prompt2.py C02 /tmp/mut2-C02  (adds the mechanisms already collected for that property)"""
import json, os, subprocess, sys
pid, wt = sys.argv[1], sys.argv[2]
base = subprocess.run([sys.executable, os.path.join(os.path.dirname(__file__), "mutant_prompt.py"), pid, wt], capture_output=True, text=True).stdout
import glob
ALREADY = {}
for mp in sorted(glob.glob(os.path.join(os.path.dirname(os.path.dirname(os.path.abspath(__file__))), "seeded", "C*", "meta.json"))):
    m = json.load(open(mp))
    if m.get("summary"):
        ALREADY.setdefault(m["breaks_property"], []).append(m["summary"])
extra = "\n\nIMPORTANT -- changes of the following kinds have ALREADY been collected for this property. Do NOT repeat these mechanisms or anything equivalent; find two DIFFERENT ideas -- subtle ones (other code sites, other operations, other backends, other kinds of mistake such as ordering of two steps, a boundary comparison, a cache/shared mutable default, an off-by-one in a cursor, state carried across calls or across buckets, error-path behaviour):\n" + "\n".join(f"  - {x}" for x in ALREADY.get(pid, [])) + "\n"
marker = "Deliverables, in the directory"
i = base.index(marker)
print(base[:i] + extra.lstrip("\n") + "\n" + base[i:])
