"""wave-2 prompt: python3 tools/mutant_prompt2.py C02 /tmp/mut2-C02  (adds the mechanisms already collected for that property)"""
import json, os, subprocess, sys
pid, wt = sys.argv[1], sys.argv[2]
base = subprocess.run([sys.executable, os.path.join(os.path.dirname(__file__), "mutant_prompt.py"), pid, wt], capture_output=True, text=True).stdout
ALREADY = {
 "C01": ["memory insert_one allocating the id as len(bucket)", "sqlite _rows_to_events decoding JSON through an lru_cache (shared dicts)", "memory get_events returning Event(**e) instead of deep copies"],
 "C02": ["peewee _get_last with an extra id tie-break", "memory insert_one allocating the id as len(bucket)", "memory replace_last choosing max end instant"],
 "C03": ["memory get_events early stop at the first event that ended before the window", "peewee _where_range losing the UTC normalisation of endtime"],
 "C04": ["peewee insert_many upserts via bulk_update keyed by primary key", "sqlite replace_last sub-select with an unscoped max(id)"],
 "C05": ["sqlite delete_bucket rolling back when the bucket does not exist", "peewee BucketModel.json using replace(tzinfo=utc)", "sqlite bucket id -> rowid cache not invalidated on delete_bucket"],
 "C06": ["sqlite insert_many upserts through one uncounted executemany(UPDATE)", "peewee insert_many wrapped in session_start/session_commit without try/finally"],
 "C07": ["memory replace_last choosing max end instant", "sqlite insert_one using a stale bucket id -> rowid cache"],
 "C08": ["negative-duration guard testing the merged duration", "heartbeat_reduce caching a stale window end"],
 "C09": ["_intersecting_eventpairs ignoring zero-length intersections", "period_union fast path when one list is empty"],
 "C10": ["flood leaving the consumed event at its old start", "flood dropping zero-length input events first"],
 "C11": ["query() stopping after the first RETURN assignment", "QList.check mishandling escaped quotes inside strings"],
 "C12": ["memory get_events returning shallow copies", "query() normalising the window with replace(tzinfo=utc)"],
 "C13": ["to_json_dict dropping the days of the duration", "timestamp setter not flooring datetimes"],
 "C14": ["legacy file detection by prefix", "migration batches with a wrong slice"],
 "C15": ["list-one event emitted early when a list-two event straddles its start", "_split_event splitting at exactly the event end"],
 "C16": ["merge_events_by_keys grouping with data.get(key) is not None", "filter_keyvals exclude pre-selecting events that carry the key"],
 "C17": ["integer scanner accepting a bare '-'", "re-annotating a typechecked parameter so the typecheck skips it"],
 "C18": ["upsert-only insert_many returning before conditional_commit", "age test through timedelta.seconds"],
 "C19": ["_pick_category via max(key=len)", "compiled-regex cache keyed by the regex text only"],
 "C20": ["parsed defaults behind an lru_cache", "table-vs-table merge via dict.update"],
}
extra = "\n\nIMPORTANT -- changes of the following kinds have ALREADY been collected for this property. Do NOT repeat these mechanisms or anything equivalent; find two DIFFERENT ideas (other code sites, other operations, other backends, other kinds of mistake such as ordering of two steps, a boundary comparison, a cache/shared mutable default, an off-by-one in a cursor, state carried across calls or across buckets, error-path behaviour):\n" + "\n".join(f"  - {x}" for x in ALREADY.get(pid, [])) + "\n"
marker = "Deliverables, in the directory"
i = base.index(marker)
print(base[:i] + extra.lstrip("\n") + "\n" + base[i:])
