#!/usr/bin/env python3
"""Confirm a seeded change and run checks against it.

  tools/seedcheck.py <seed-id> <worktree> <patch> <demo> <breaks-prop> [--checks C02,C07] [--tier quick] [--keep]

1. worktree must be a clean scratch worktree of /repo (outside /repo and /verif)
2. demo on the unchanged worktree must exit 0
3. apply patch; repository test suite must still pass (private XDG dirs)
4. demo with the patch must exit non-zero
5. each listed check is run with VERIF_REPO=<worktree> (--no-evidence); exit 1 + VIOLATION = caught
6. patch is reverted; with --keep the artefacts are copied to /verif/seeded/<seed-id>/
"""
import argparse
import json
import os
import shutil
import subprocess
import sys
import tempfile
import time

VERIF = os.path.dirname(os.path.dirname(os.path.abspath(__file__)))


def sh(cmd, cwd=None, env=None, timeout=3600):
    p = subprocess.run(cmd, shell=True, cwd=cwd, env=env, stdout=subprocess.PIPE, stderr=subprocess.STDOUT, text=True, timeout=timeout)
    return p.returncode, p.stdout


def main():
    ap = argparse.ArgumentParser()
    ap.add_argument("seed_id")
    ap.add_argument("worktree")
    ap.add_argument("patch")
    ap.add_argument("demo")
    ap.add_argument("prop")
    ap.add_argument("--checks", default=None)
    ap.add_argument("--tier", default="quick")
    ap.add_argument("--keep", action="store_true")
    ap.add_argument("--needs", default="")
    ap.add_argument("--skip-tests", action="store_true")
    a = ap.parse_args()
    wt = os.path.realpath(a.worktree)
    assert not wt.startswith("/repo") and not wt.startswith("/verif")
    checks = (a.checks or a.prop).split(",")
    res = {"seed": a.seed_id, "breaks": a.prop, "ran": []}
    xdg = tempfile.mkdtemp(prefix="seedxdg-", dir="/dev/shm")
    env = dict(os.environ, PYTHONPATH=wt, XDG_DATA_HOME=xdg + "/d", XDG_CONFIG_HOME=xdg + "/c", XDG_CACHE_HOME=xdg + "/k", PYTHONDONTWRITEBYTECODE="1")
    for d in ("d", "c", "k"):
        os.makedirs(f"{xdg}/{d}")
    def fresh_env():
        # every step gets its own empty XDG dirs (a demo that writes a legacy database must not leak into the test run)
        nonlocal env
        sub = tempfile.mkdtemp(prefix="s-", dir=xdg)
        for d in ("d", "c", "k"):
            os.makedirs(f"{sub}/{d}")
        env = dict(os.environ, PYTHONPATH=wt, XDG_DATA_HOME=sub + "/d", XDG_CONFIG_HOME=sub + "/c", XDG_CACHE_HOME=sub + "/k", PYTHONDONTWRITEBYTECODE="1")

    try:
        rc, out = sh("git status --porcelain --untracked-files=no", cwd=wt)
        assert out.strip() == "", f"worktree not clean: {out}"
        fresh_env()
        rc, out = sh(f"/venv/bin/python -B {a.demo}", cwd=wt, env=env)
        res["demo_unpatched_rc"] = rc
        rc, out = sh(f"git apply {a.patch}", cwd=wt)
        assert rc == 0, f"patch does not apply: {out}"
        if not a.skip_tests:
            t = time.time()
            fresh_env()
            rc, out = sh("/venv/bin/python -B -m pytest -q -p no:cacheprovider --timeout=900 tests 2>&1 | tail -3", cwd=wt, env=env)
            res["tests_with_patch"] = out.strip().splitlines()[-1] if out.strip() else ""
            res["tests_pass"] = " passed" in out and "failed" not in out and "error" not in out.lower()
        fresh_env()
        rc, out = sh(f"/venv/bin/python -B {a.demo}", cwd=wt, env=env)
        res["demo_patched_rc"] = rc
        res["demo_patched_tail"] = out.strip().splitlines()[-1][:300] if out.strip() else ""
        for c in checks:
            t = time.time()
            rc, out = sh(f"./check {c} {a.tier} --no-evidence", cwd=VERIF, env=dict(os.environ, VERIF_REPO=wt))
            vio = [l[:300] for l in out.splitlines() if l.startswith("VIOLATION")]
            res["ran"].append({"check": c, "tier": a.tier, "rc": rc, "violations": vio[:4], "n_violation_lines": len(vio), "wall_s": round(time.time() - t, 1), "harness": [l[:200] for l in out.splitlines() if l.startswith("HARNESS")][:3]})
        res["caught_by"] = [r["check"] for r in res["ran"] if r["rc"] == 1 and r["violations"]]
    finally:
        sh("git checkout -- . && git clean -fdq -e _out", cwd=wt)
        shutil.rmtree(xdg, ignore_errors=True)
    ok = res.get("demo_unpatched_rc") == 0 and res.get("demo_patched_rc", 0) != 0 and (a.skip_tests or res.get("tests_pass"))
    res["confirmed"] = bool(ok)
    print(json.dumps(res, indent=1))
    if a.keep and ok:
        d = os.path.join(VERIF, "seeded", a.seed_id)
        os.makedirs(d, exist_ok=True)
        shutil.copy(a.patch, os.path.join(d, "patch.diff"))
        shutil.copy(a.demo, os.path.join(d, "demo.py"))
        meta = {
            "id": a.seed_id,
            "breaks_property": a.prop,
            "needs_to_manifest": a.needs,
            "what_was_run": {
                "demo_unpatched_rc": res["demo_unpatched_rc"],
                "tests_with_patch": res.get("tests_with_patch"),
                "demo_patched_rc": res["demo_patched_rc"],
                "demo_patched_tail": res.get("demo_patched_tail"),
                "checks": res["ran"],
            },
            "caught_by": res["caught_by"],
            "base_commit": sh("git rev-parse --short HEAD", cwd=wt)[1].strip(),
        }
        with open(os.path.join(d, "meta.json"), "w") as f:
            json.dump(meta, f, indent=1)
        print("kept in", d)
    return 0 if ok else 3


if __name__ == "__main__":
    sys.exit(main())
