#!/usr/bin/env python3
"""Run checks against every kept seeded change and record which checks catch which change.

  tools/matrix.py [--seeds C02-1,C07-2] [--checks own|all|C02,C05] [--tier quick] [--jobs 1]

For each seed: scratch worktree of /repo HEAD under /var/tmp, `git apply seeded/<id>/patch.diff`,
each check with VERIF_REPO=<worktree> --no-evidence, worktree removed afterwards.
Writes seeded/MATRIX.json (+ prints a table); never touches /repo's working tree."""
import argparse
import json
import os
import subprocess
import sys
import tempfile
import time

VERIF = os.path.dirname(os.path.dirname(os.path.abspath(__file__)))
ALL = [f"C{i:02d}" for i in range(1, 21)]


def sh(cmd, cwd=None, env=None):
    p = subprocess.run(cmd, shell=True, cwd=cwd, env=env, stdout=subprocess.PIPE, stderr=subprocess.STDOUT, text=True)
    return p.returncode, p.stdout


def main():
    ap = argparse.ArgumentParser()
    ap.add_argument("--seeds")
    ap.add_argument("--checks", default="own")
    ap.add_argument("--tier", default="quick")
    a = ap.parse_args()
    seeds = sorted(os.listdir(os.path.join(VERIF, "seeded")))
    seeds = [s for s in seeds if os.path.isdir(os.path.join(VERIF, "seeded", s))]
    if a.seeds:
        seeds = [s for s in seeds if s in a.seeds.split(",")]
    mpath = os.path.join(VERIF, "seeded", "MATRIX.json")
    matrix = json.load(open(mpath)) if os.path.exists(mpath) else {}
    for sid in seeds:
        d = os.path.join(VERIF, "seeded", sid)
        meta = json.load(open(os.path.join(d, "meta.json")))
        own = meta["breaks_property"]
        checks = [own] if a.checks == "own" else ALL if a.checks == "all" else a.checks.split(",")
        wt = tempfile.mkdtemp(prefix=f"mx-{sid}-", dir="/var/tmp")
        os.rmdir(wt)
        rc, out = sh(f"git -C /repo worktree add -q --detach {wt} HEAD")
        assert rc == 0, out
        try:
            rc, out = sh(f"git apply {d}/patch.diff", cwd=wt)
            if rc != 0:
                print(f"{sid}: patch does not apply to current HEAD: {out.strip()[:200]}")
                matrix.setdefault(sid, {})["_applies"] = False
                continue
            matrix.setdefault(sid, {})["_applies"] = True
            matrix[sid]["_breaks"] = own
            for c in checks:
                t = time.time()
                rc, out = sh(f"./check {c} {a.tier} --no-evidence", cwd=VERIF, env=dict(os.environ, VERIF_REPO=wt))
                vio = [l for l in out.splitlines() if l.startswith("VIOLATION")]
                matrix[sid][c] = {"rc": rc, "violations": len(vio), "first": (vio[0].split("#", 1)[1].strip()[:160] if vio else ""), "wall_s": round(time.time() - t, 1), "tier": a.tier}
                print(f"{sid} x {c}: rc={rc} violations={len(vio)} {matrix[sid][c]['wall_s']}s {matrix[sid][c]['first'][:100]}")
                sys.stdout.flush()
        finally:
            sh(f"git -C /repo worktree remove --force {wt}")
        with open(mpath, "w") as f:
            json.dump(matrix, f, indent=1, sort_keys=True)
    missed = [s for s in seeds if matrix.get(s, {}).get("_applies") and not any(v.get("rc") == 1 for k, v in matrix[s].items() if not k.startswith("_"))]
    print("seeds not caught by any check run so far:", missed)


if __name__ == "__main__":
    main()
