"""prints the prompt for a mutant-writing sub-agent: python3 tools/mutant_prompt.py C02 /tmp/mut-C02"""
import json, sys
pid, wt = sys.argv[1], sys.argv[2]
p = [json.loads(l) for l in open('/verif/properties.jsonl') if json.loads(l)['id'] == pid][0]
print(f"""You are helping to evaluate a verification effort for the Python library ActivityWatch/aw-core. Your job: write realistic BUGS.

You have your own scratch git worktree of the repository at {wt} (work ONLY there; never touch /repo or /verif, do not read /verif). The interpreter with all dependencies is /venv/bin/python. There is no network.

Here is a semantic property that the library is supposed to satisfy:

  Title: {p['title']}
  Statement: {p['statement']}
  Quantified over: {p['quantifier']['text']}
  Relevant files: {', '.join(p['anchors']['files'])}

Task: produce TWO different, independent source changes to aw-core (each a small, realistic edit of the kind a developer could plausibly make during a refactor or 'optimisation' -- different mechanisms / different code sites for the two) such that, for EACH change on its own:
  1. the code still imports and the repository's existing test suite still passes completely with the change applied. Run it like this, from the worktree, with a PRIVATE data dir so concurrent runs do not collide:
       cd {wt} && XDG_DATA_HOME=$(mktemp -d) XDG_CONFIG_HOME=$(mktemp -d) XDG_CACHE_HOME=$(mktemp -d) PYTHONPATH={wt} /venv/bin/python -m pytest -q -p no:cacheprovider --timeout=900 tests
     (check that `PYTHONPATH={wt} /venv/bin/python -c "import aw_core; print(aw_core.__file__)"` prints a path inside {wt}); 156 tests must pass;
  2. the change BREAKS the property above (the library now really violates the statement for some input/history), but
  3. it needs something specific to manifest: a particular multi-step sequence of operations, an unusual-but-legal input (ties, zero-length events, boundary equalities, a second bucket, a particular backend ...), or two cooperating sites that each look fine alone. NOT something that ordinary use or the simplest call would expose at once. Do not change tests. Do not add obviously malicious code (no `if x == 42`-style special-casing of magic values, no randomness, no time bombs); it must look like an honest mistake.
  4. you write a small standalone demonstration program (plain python, no pytest needed) that exits 0 on the ORIGINAL code and exits non-zero (assertion failure) WITH the change, run as:  PYTHONPATH={wt} XDG_DATA_HOME=$(mktemp -d) /venv/bin/python demoN.py

Deliverables, in the directory {wt}/_out/ (create it):
  - patch1.diff, patch2.diff : output of `git diff` for each change alone (relative to the worktree's HEAD; source files only, apply-able with `git apply`)
  - demo1.py, demo2.py       : the demonstrations
  - notes.md                 : for each change: what it does, why the tests still pass, what exactly is needed for it to manifest, and the output of your runs (tests with the change: pass count; demo without the change: exit 0; demo with the change: failure message)
Leave the worktree's tracked files UNMODIFIED at the end (git checkout -- . after producing each patch), with only _out/ added.

Verify everything yourself by actually running it. In your final message just say which files you wrote and summarise the two changes in two lines each.""")
