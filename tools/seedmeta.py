#!/usr/bin/env python3
"""Fills summary / needs_to_manifest / first_missed in seeded/<id>/meta.json (from the sub-agents' reports)
and prints the DESIGN.md table.  python3 tools/seedmeta.py [--table]"""
import json
import os
import sys

VERIF = os.path.dirname(os.path.dirname(os.path.abspath(__file__)))
# id: (what it does, what it needs to manifest, strengthening if it was first missed else "")
M = {
    "C01-1": ("memory insert_one allocates the id as len(bucket)", "delete a non-newest event, then insert", "canonical form merged ids {1} with {0} -> id-gap shape; C01 got id-uniqueness histories"),
    "C01-2": ("sqlite rows decoded through an lru_cache (handed-out events share their data dict with the cache)", "read an event, mutate it, read again", ""),
    "C01-3": ("memory insert_many deep-copies the whole batch at once (shared memo)", "bulk insert listing the same Event object twice", "bulk inserts only ever listed distinct objects -> bulksame ops in C01/C02"),
    "C01-4": ("sqlite inserts bind a remembered bucket rowid that delete_bucket never forgets", "insert, delete bucket, re-create same id, insert, read", ""),
    "C02-1": ("peewee _get_last gets an id tie-break that get_events lacks", "two events sharing the newest timestamp", ""),
    "C02-2": ("memory insert_one allocates the id as len(bucket)", "delete a non-newest event, then insert", "rank-renamed canonical form hid it -> id-gap shape"),
    "C02-3": ("sqlite replace_last picks the latest event of the whole table, then checks the bucket", "another bucket holding a later-starting event", ""),
    "C02-4": ("Bucket.insert sends a one-element list through insert_one", "bulk upsert of exactly one event on sqlite", ""),
    "C03-1": ("memory get_events stops at the first event that ended before the window", "nested / overlapping events", ""),
    "C03-2": ("peewee _where_range loses the UTC normalisation of endtime", "window end given with a UTC offset", ""),
    "C03-3": ("Bucket.get end round-up drops the carry into the seconds", "window ending in the last millisecond of a second", "no lattice crossed a second boundary -> 'carry' embedding"),
    "C03-4": ("sqlite reads use a bucket rowid cache that delete_bucket never clears", "create, read, delete, re-create, insert, read", "C03 skipped such buckets as 'baseline mismatch' -> now a violation; C05: reads extend histories, canonical form taken before the observation"),
    "C04-1": ("peewee bulk upsert via bulk_update keyed by primary key only", "bulk insert with an id of another bucket", ""),
    "C04-2": ("sqlite replace_last sub-select with an unscoped max(id)", "another bucket's event starting at the same instant with a higher id", ""),
    "C04-3": ("sqlite insert_many rolls the shared transaction back when the batch is rejected", "unobserved (buffered) write in B, then a rejected batch for A", "every replayed op was followed by a read and no probe was ever rejected -> rejected-op probes with the last write unobserved"),
    "C04-4": ("peewee delete: `bucket == key and id == event_id` drops the bucket condition", "delete on A with an id of B", ""),
    "C05-1": ("sqlite delete_bucket of an absent bucket rolls back", "buffered event writes, failed delete, then a read", "harness read of the raw tables committed first -> observations never commit"),
    "C05-2": ("peewee `created` via replace(tzinfo=utc)", "bucket created with a non-UTC offset", ""),
    "C05-3": ("sqlite delete_bucket sub-select names a column that resolves to the outer table: deletes every event", "a second bucket that holds events", ""),
    "C05-4": ("sqlite update_bucket joins assignments with AND", "update of two or more fields in one call", ""),
    "C06-1": ("sqlite bulk upserts via one uncounted executemany(UPDATE)", "> 50 upserts without a read", ""),
    "C06-2": ("peewee insert_many wrapped in a session without try/finally", "a failing bulk insert, later successful ops, crash", "no failing ops, open transaction not part of the state -> fault ops + in_transaction bit"),
    "C06-3": ("sqlite update_bucket inside `with self.conn:` rolls back on an absent bucket", "buffered writes, failing update_bucket, later commit", "the fault op had been dropped from the quick alphabet -> restored"),
    "C06-4": ("one helper does execute + conditional_commit(1) for both DELETEs of delete_bucket", "exactly 50 buffered statements (or age) so that the commit fires between the two DELETEs", ""),
    "C07-1": ("memory replace_last targets max end instead of max start", "newest event's end ties with the previous one's", ""),
    "C07-2": ("sqlite insert_one uses a stale bucket id -> rowid cache", "insert, delete bucket, re-create, insert", "hidden object state was not part of canonical forms (C05)"),
    "C07-3": ("peewee _get_last orders by datetime(timestamp), which drops fractional seconds", "several events inside one calendar second", "streams only on a 1 s lattice -> 1 ms / 100 ms phases in C07, 1 ms config in C02"),
    "C07-4": ("sqlite delete_bucket raises inside `with self.conn:` (rollback)", "a rejected delete of a missing bucket between two heartbeats of another bucket", "nothing happened between heartbeats -> noise-operation phase without intermediate reads"),
    "C08-1": ("negative-duration guard tests the merged duration", "first event with negative duration", ""),
    "C08-2": ("heartbeat_reduce caches a stale window end", ">= 3 events, merged heartbeat nested in the accumulated one", ""),
    "C08-3": ("window test via gap.seconds", "fractional gap between the pulsetime and the next whole second", ""),
    "C08-4": ("heartbeat_reduce keeps events[0] in the loop", "first event with negative duration", ""),
    "C09-1": ("_intersecting_eventpairs ignores zero-length intersections", "zero-length event strictly inside the other list's event, later overlap", ""),
    "C09-2": ("period_union fast path for an empty argument", "one empty list, the other overlapping itself", ""),
    "C09-3": ("period_union merged period built from (last.start, e.end)", "event nested inside an earlier longer one", ""),
    "C09-4": ("`end <= start` became `<` in the no-intersection branch", "touching boundary followed by an event overlapping the same filter event", ""),
    "C10-1": ("flood leaves the consumed event at its old start", "three events, same-data merge first", ""),
    "C10-2": ("flood drops zero-length inputs first", "zero-length event within the pulsetime of a neighbour", ""),
    "C10-3": ("flood carries a stale end-of-previous-event cursor", "zero gap immediately followed by a short gap", ""),
    "C10-4": ("flood sorts the caller's list in place", "unsorted input", ""),
    "C11-1": ("statement loop stops after the first RETURN", "RETURN rebound, or a failing statement after it", "programs always ended with one RETURN -> four RETURN contexts"),
    "C11-2": ("QList.check mishandles an escaped quote inside a list's string", "that list nested and followed by another element", "special strings only as direct arguments -> 20 wrapped shapes"),
    "C11-3": ("q2_concat extends its first argument in place", "the first argument read again later", ""),
    "C11-4": ("QFunction.parse consumes the comma at the top of the loop without strip", "whitespace or newline before a separating comma", ""),
    "C12-1": ("memory get_events returns Event(**e) (shared data dicts)", "in-place annotator on query_bucket output", ""),
    "C12-2": ("query window 'normalised' with replace(tzinfo=utc)", "window given with a UTC offset", ""),
    "C12-3": ("query_bucket caches its result per bucket in the namespace and hands out shared Event objects", "fetch, in-place annotator, fetch again", "each program fetched a bucket once -> refetch programs"),
    "C12-4": ("query_bucket short-circuits when endtime <= starttime", "zero-width window inside an event", ""),
    "C13-1": ("to_json_dict drops the days of the duration", "durations >= 1 day", ""),
    "C13-2": ("timestamp setter no longer floors datetimes", "assignment to event.timestamp; Event() default", ""),
    "C13-3": ("Event.__init__ only sets a truthy id", "id 0", "the id was only compared between the event and its rebuilt copy -> constructed id checked"),
    "C13-4": ("millisecond floor via timedelta arithmetic (resets fold)", "aware datetime with fold=1 inside a repeated DST hour", "only fixed-offset zones -> fold-aware zone"),
    "C14-1": ("legacy file detection by prefix", "normal profile with both legacy files present", ""),
    "C14-2": ("migration batches of 100 with a wrong slice", "legacy bucket with > 100 events", ""),
    "C14-3": ("migration skips buckets without events", "legacy bucket with zero events", ""),
    "C14-4": ("sqlite insert_many looks the rowid up with an f-string", "bucket id containing an apostrophe", "no bucket id carried SQL-special characters -> added (C14, C05)"),
    "C15-1": ("list-one event emitted as soon as a list-two event straddles its start", "later list-two events inside it", ""),
    "C15-2": ("_split_event splits at exactly the end", "list-two event ending where its covering list-one event ends", ""),
    "C15-3": ("up-front deepcopy removed: remainders written into the caller's second list", "a list-two event straddling a list-one event", ""),
    "C15-4": ("fast-path loop uses the stale duration of the dropped event", "short covered list-two event followed by a longer straddling one", ""),
    "C16-1": ("grouping key via data.get(key) is not None", "key present with value null vs absent", "null was not a value in the alphabet -> null/0 added"),
    "C16-2": ("exclude pre-selects events that carry the key", "excluding, some event lacks the key", ""),
    "C16-3": ("grouping key follows each event's own dict order", "equal events whose dicts were built in different key order", "all dicts were built in one key order -> swapped variants"),
    "C16-4": ("vals turned into a frozenset", "event value is a list under the filtered key", ""),
    "C17-1": ("integer scanner accepts a bare '-'", "'-' at a value position", "only found through a corpus title -> '-' in the alphabet"),
    "C17-2": ("`classes` re-annotated so the typecheck skips it", "non-list second argument to categorize/tag", "expected types were read from the implementation -> independent signature table"),
    "C17-3": ("find_bucket indexes an empty candidate list", "id matches, hostname does not", "classified as a deep data error -> explicit unknown-bucket cases with hostname"),
    "C17-4": ("string scanner replaced by a backtracking regular expression", "unterminated string followed by ~30 characters", "(caught; the run now also names a text stuck in uninterruptible C code from per-worker progress records)"),
    "C18-1": ("upsert-only batch returns before conditional_commit", "insert([event with id]) > 10 s after the last flush", "no upsert-only op -> ups, ups2"),
    "C18-2": ("age test via timedelta.seconds", "idle period of k days + <= 10 s", "elapsed time capped at 12 s -> whole days kept apart, clock+86403"),
    "C18-3": ("in_batch flag stays set when a bulk insert raises", "a rejected bulk insert, then single writes", "no rejected ops in C18's alphabet -> badbulk / staleB2bulk"),
    "C18-4": ("replace_last calls conditional_commit(0), which returns early when nothing is pending", "replace_last as the first write after a flush", ""),
    "C19-1": ("_pick_category via max(key=len)", "two matching categories of equal maximal depth", ""),
    "C19-2": ("compiled-regex cache keyed by the text only", "same regex text with different ignore_case in one process", ""),
    "C19-3": ("Rule.match joins the values with a newline and searches once", "anchored regex on a non-first value", ""),
    "C19-4": ("no match -> setdefault('$category', ...)", "event that already carries $category", ""),
    "C20-1": ("parsed defaults behind an lru_cache, merged in place", "second load in one process", ""),
    "C20-2": ("table-vs-table merged with dict.update", "defaults nested two tables deep", ""),
    "C20-3": ("leaf-equality shortcut guarded by the outer type only", "user array equal in value with other element types", "no such array in the alphabet -> [1.0, 2.0] option"),
    "C20-4": ("table test narrowed to tomlkit AbstractTable", "tables written non-contiguously / dotted (OutOfOrderTableProxy)", ""),
    # ---- wave 3
    "C01-5": ("sqlite insert_many rolls back the shared transaction when the batch raises", "unobserved single inserts, then a rejected bulk insert", "(caught by C04 only) -> C01 got acknowledged-then-rejected histories"),
    "C01-6": ("peewee EventModel.from_event drops the days of the duration", "peewee single insert / upsert of an event lasting >= 24 h", ""),
    "C02-5": ("memory delete removes an EQUAL event (list.remove) instead of the addressed id", "two live events with identical content", ""),
    "C02-6": ("peewee delete combines its conditions with Python `and` (bucket condition dropped)", "delete with an id that is live in another bucket", "(caught by C04 only) -> C02 got the delete-with-foreign-id op"),
    "C03-5": ("sqlite get_eventcount joins buckets without a join condition", "a second bucket with events in the window", ""),
    "C03-6": ("memory buckets kept sorted on insert, reads no longer sort", "a replace that moves an event's timestamp past a neighbour", "contents were only ever built by inserts -> also through replace-by-id in reversed order"),
    "C04-5": ("peewee caches the newest EventModel per bucket; delete() does not drop the entry", "replace_last, delete A's newest (highest id), insert into B (reuses the id), replace_last on A", ""),
    "C05-5": ("Datastore.__getitem__ caches the handle before the existence check", "looking a missing id up twice", "operations on absent buckets never extended histories -> they do now"),
    "C05-6": ("peewee update_bucket via one UPDATE built from a filtered dict ('null' data passes the filter)", "update that does not supply data", ""),
    "C06-5": ("conditional_commit decides before adding the current statements", "insert_many of > 50 events followed directly by a crash", ""),
    "C06-6": ("connection opened with isolation_level=None (native autocommit)", "crash between the two DELETEs of delete_bucket", ""),
    "C07-5": ("memory insert_one allocates the id as len(bucket)", "an older event of the heartbeat bucket is deleted mid-stream, then an inserting and a merging heartbeat", "nothing ever deleted events mid-stream -> delete-oldest noise op, ids unique after the stream"),
    "C07-6": ("sqlite replace_last matches WHERE starttime = max(starttime) unscoped", "another bucket's event starting at the same microsecond", ""),
    "C08-5": ("heartbeat_reduce skips 'already covered' heartbeats before calling merge", "out-of-order input or negative durations", ""),
    "C08-6": ("pulse window built as timedelta(milliseconds=int(pulsetime*1000))", "fractional pulsetimes such as 1.001 / sub-millisecond, gap exactly at the boundary", "pulsetimes were only 0, .5, 1, 1.5, 2 lattice units -> fractional-pulsetime boundary unit"),
    "C09-5": ("filter_period_intersect no longer copies-by-sorting: the helper sorts the caller's lists", "input list not ascending by timestamp", ""),
    "C09-6": ("period_union merges gaps <= 1 ms", "two intervals exactly 1 ms apart", "union ran on the 1 s lattice only in the quick tier -> also at 1 ms"),
    "C10-5": ("flood returns early for pulsetime 0 (skipping the zero-duration filter)", "pulsetime 0 and a zero-length input event", ""),
    "C10-6": ("flood reverses instead of sorting when first.timestamp > last.timestamp", "3+ events in a shuffled order whose first is later than its last", ""),
    "C11-5": ("per-query memo of call results keyed by the call's source text", "the same call text twice with a variable in it rebound in between", "no program repeated a call text -> same-call-text-twice context"),
    "C11-6": ("argument-count check counting only parameters without default, compared with !=", "find_bucket called with its optional hostname", ""),
    "C12-5": ("memory get_events sorts the backing list in place and reverses it", "two events sharing a timestamp, two consecutive reads", "the seeded store had no tied timestamps -> ties added"),
    "C12-6": ("query_bucket reads through storage_strategy.get_events (bypassing Bucket.get's ms rounding)", "zero-width / sub-millisecond windows", ""),
    "C13-5": ("to_json_dict memoised; the id setter does not invalidate the memo", "serialise, assign the id, serialise again", "nothing was assigned after a serialisation -> single-attribute assignment sequences"),
    "C13-6": ("timestamp setter skips astimezone(utc) when utcoffset() is falsy", "aware datetime in a DST zone whose offset is zero at that instant", "tzinfo was only required to have offset 0 -> must be UTC; zero-offset DST zone added"),
    "C14-5": ("migration in two passes writes every bucket's events to the last bucket (stale variable)", ">= 2 legacy buckets, a non-last one with events", ""),
    "C14-6": ("migration opens PeeweeStorage(testing=True) whatever the profile", "normal profile", ""),
    "C15-5": ("covered part skipped in the same step via a second _split_event", "zero-length list-one event strictly inside a list-two event", ""),
    "C15-6": ("deepcopy memo as a mutable default argument", "calling twice with the same list objects", "every call used fresh lists -> every call is repeated with the same objects (C09, C10, C15, C16)"),
    "C16-5": ("groups keyed on hash(composite_key)", "values whose hashes coincide (-1 and -2)", "no such values in the alphabet -> added"),
    "C16-6": ("sort_by_timestamp sorts on (timestamp, id)", "tied timestamps with a None id and an int id", "all events had id None -> mixed ids"),
    "C17-5": ("_verify_bucket_exists behind an lru_cache", "query a bucket, delete it, query again on the same datastore", "texts only, no history -> query-after-deletion scenario"),
    "C17-6": ("QString.parse cursor loop reads past the end", "string whose only closing quote is backslash-escaped at the end of the text", ""),
    "C18-5": ("delete runs its flush check before the DELETE", "a delete > 10 s after the last flush", "the oracle accepted a flush anywhere inside the operation -> a single-event write must itself be durable"),
    "C18-6": ("replace_last rebuilt on get_events (which commits and resets the clock) + replace", "replace_last > 10 s after the last flush", "same oracle revision"),
    "C19-5": ("Rule.match looks a missing selected key up as ''", "select_keys hitting a missing key with a regex that matches the empty string", "no such regex in the alphabet -> '.*', '^$'"),
    "C19-6": ("regex text stripped before compiling", "regex with leading/trailing whitespace", "no such regex -> ' '"),
    "C20-5": ("an existing blank user file is treated as 'no config yet' and overwritten", "existing empty / whitespace-only file", ""),
    "C20-6": ("_merge drops a non-table user value over a default table", "user scalar where the default has a table", ""),
    # ---- wave 4 (prompt listed the mechanisms of waves 1-3 as already collected) -------------------
    "C01-7": ("memory delete removes by list.remove(event): equality, not identity", "two stored events with identical content, delete the later twin", "C01 had no content-twin histories; id/content histories with an exact model added"),
    "C01-8": ("sqlite replace_last rewrites every event sharing max(starttime)", "two newest events starting at the same instant", "C01 only read back what it wrote last; replace_last with start ties added to the fidelity histories"),
    "C02-7": ("memory replace keeps the id carried by the replacement object", "replace(id, event read earlier that carries another id)", "alphabet had no replacement carrying an id; rep_otherid / repl_otherid added"),
    "C02-8": ("peewee bulk upsert through EventModel.bulk_update (one UPDATE per batch)", "one bulk call naming the same live id twice", "alphabet had no repeated id in one bulk call; ups_twice added"),
    "C03-7": ("sqlite range queries bound starttime from below by window start - 24 h", "an event that started more than 86.4 s before the window start and reaches into it (the 24 h constant is in ms, the column in us)", ""),
    "C03-8": ("peewee clipping: start and end cut became if/elif", "one event sticking out of the window on BOTH sides", "oracle accepted any sub-interval; now an event is unchanged or cut to the window on both sides"),
    "C05-7": ("Bucket handle caches its metadata until update/delete through the registered handle", "handle kept across delete + re-create of the same id, then update through the datastore", "fresh and stale handles were not compared; describe/read through both, handle identity in the canonical form"),
    "C05-8": ("sqlite update_bucket sorts the column names but not the values", "update of two fields whose alphabetical order differs from the parameter order (type + client)", "multi-field updates only covered ordered pairs; all field subsets enumerated"),
    "C06-7": ("sqlite delete_bucket events statement rewritten as WITH ... DELETE (python sqlite3 does not open a transaction for it)", "crash between the two statements of delete_bucket on the lazy store", ""),
    "C06-8": ("sqlite replace_last returns early (no conditional_commit) when rowcount == 1", "run of > 50 replace_last calls", ""),
    "C07-7": ("sqlite _event_to_us uses timedelta.seconds (drops days) for the duration", "heartbeat-extended event growing past 24 h", "durations stopped below a day; 12 h lattice streams added"),
    "C07-8": ("peewee DecimalField(auto_round=True) rounds the duration to 5 decimals", "microsecond-resolution duration at the pulsetime boundary", "durations were whole ms; microsecond-duration boundary streams added"),
    "C08-7": ("heartbeat_reduce returns the input unreduced when pulsetime <= 0", "pulsetime 0 with overlapping / touching equal-data events", ""),
    "C08-8": ("data equality replaced by len + b.get(key) == value", "data dicts of equal size with different keys whose values are None", "value alphabet had no null under differing keys; data-equality catalogue added"),
    "C09-7": ("filter_period_intersect skips runs with bisect over end times (assumes ends sorted)", "zero-length event sharing its start with a longer one and listed after it", ""),
    "C09-8": ("period_union skips an event starting at the same instant as the current one", "two events with equal start, the shorter first", ""),
    "C10-7": ("flood skips pairs whose left event has zero duration", "short gap directly after a same-data forward merge", ""),
    "C10-8": ("flood collects finished events in the loop and drops e1 when the gap is exactly 0 (continue before collecting)", "touching neighbours (gap 0)", ""),
    "C11-7": ("scanner treats a backslash-escaped quote as escaped even for the other quote kind / ignores double_quote state", "dict literal holding a double-quoted string with an apostrophe, followed by more content", ""),
    "C11-8": ("compiled Rule objects memoised on (regex, ignore_case) only", "two rules sharing regex but selecting different keys", "C11 had no categorize/tag programs with select_keys variation; rules_sel / tagrules_sel programs added"),
    "C12-7": ("query_bucket_eventcount floors the window start to the millisecond", "window start off the millisecond grid + event ending inside that millisecond", "store and windows were whole seconds; sub-ms event ends and windows added"),
    "C12-8": ("query_bucket drops events that start after the (exact) end instant", "event picked up only through Bucket.get's millisecond rounding of the window end", "same: sub-ms windows and an event starting on the next millisecond added; comparison on raw full dump"),
    "C13-7": ("_timestamp_parse wrapped in lru_cache (fold is not part of datetime equality/hash)", "same wall-clock time with fold=0 and fold=1 in a DST zone", ""),
    "C13-8": ("to_json_dict strips the last three microsecond digits positionally", "timestamp in the first millisecond of a second (isoformat has no fraction)", ""),
    "C14-7": ("migration re-encodes event data through utf-8 (raises / drops on lone surrogates)", "legacy event data with an unpaired surrogate", "catalogue had no lone surrogate; added (also C01)"),
    "C14-8": ("legacy database located by glob + newest/last match", "backup copy peewee-sqlite.v2.backup.db next to the legacy database", "environment had exactly one candidate file; decoy backup file added"),
    "C15-7": ("union_no_overlap tests intersection through timeslot periods", "zero-length list-one event on the start of a list-two event", ""),
    "C15-8": ("union_no_overlap compares float epoch seconds", "millisecond grid (23 ms unit) with shared edges", "embedding units were float-friendly; 23 ms embedding added"),
    "C16-7": ("merge_events_by_keys skips zero-length events", "key combination occurring only on zero-length events", ""),
    "C16-8": ("exclude_keyvals returns [] early for an empty value list", "empty list of values", ""),
    "C17-7": ("argument-count TypeError no longer translated for the datastore-injected functions", "query_bucket / find_bucket / query_bucket_eventcount with too many arguments", ""),
    "C17-8": ("shared bracket scanner returns None for an unclosed list/dict; string[:None] makes no progress", "unclosed [ or { nested inside a balanced call", "the check found it but spent 5 s per hanging text and ran out its clock; units now stop after two hangs, the run after three such units"),
    "C18-7": ("last_commit restarted whenever the buffer is empty", "write on an idle store with an empty buffer > 10 s after the last flush", "harness treated an empty buffer as a flush; only COMMITs (and store open) count now"),
    "C18-8": ("commit bookkeeping moved to class attributes shared by all SqliteStorage instances", "two lazily committing stores in one process", ""),
    "C19-7": ("rules grouped by select_keys and evaluated group by group", "three rules, first and third with the same select_keys, second different, all matching", "3-rule lists had no select_keys variation; sel24 (3) and tiny9 (4) alphabets added"),
    "C19-8": ("Rule.__init__ pops its options out of the caller's dict", "Rule built twice from the same dict (rule list reused)", "each call built fresh dicts; one set of dicts / Rule objects now shared across the three calls"),
    "C20-7": ("first-run write asserts that the dumped defaults parse to a non-empty table count", "defaults with top-level keys only", ""),
    "C20-8": ("_merge takes a user table whole once it sets every key of the default table", "user table covering all default keys but only part of a nested table", ""),
    # ---- wave 5 -------------------------------------------------------------------------------------
    "C01-9": ("memory get_events fast path for 0 < limit < len returns the stored objects", "read with a positive limit below the bucket size, mutate the result", "(caught by the 'got_limit1' victim added the same hour, after the agent's side note on insert_one; before that only get(-1) / get_by_id results were mutated)"),
    "C01-10": ("memory insert_one takes tail id + 1 while replace_last sorts the list in place", "events inserted out of time order, replace_last, insert", "id histories only inserted in time order; ins_old / repl_move ops added"),
    "C02-9": ("memory insert_many deep-copies the whole batch list at once (aliases kept)", "bulk insert listing one Event object several times", ""),
    "C02-10": ("sqlite get_event looks up by primary key only", "lookup in one bucket of an id that lives in another", "lookups were only made with own, dead and never-existed ids; foreign-id lookup added"),
    "C03-9": ("sqlite get_events orders by endtime", "nested event (starts earlier, ends later)", ""),
    "C03-10": ("Bucket.get_eventcount returns 0 when endtime <= starttime", "zero-width window inside an event", ""),
    "C04-9": ("peewee replace verifies event_id but saves the row under the event's own id", "replace(own id, event read from another bucket)", "probes addressed foreign ids but replacement objects never carried one; rep_carry / repl_carry added"),
    "C04-10": ("Datastore.__getitem__ strips whitespace from the bucket id", "two buckets whose ids differ by trailing whitespace", "bucket ids were A / B / passive; now wnd / 'wnd ' / Wnd (also C05: '1' / '1 ')"),
    "C05-9": ("Datastore.bucket_instances is a class attribute shared by all Datastore objects", "two datastores in one process holding the same bucket id", ""),
    "C05-10": ("memory update_bucket merges the new data dict into the old one", "update of data on a bucket that already has data", ""),
    "C06-9": ("buffered statements counted per bucket", "writes alternating between two buckets without a read", "the second bucket only ever received one event; bulk49B2 added"),
    "C06-10": ("delete_bucket deletes events in batches of 1000 with a commit after each full batch", "bucket with >= 1000 events, crash inside delete_bucket", "buckets held at most ~100 events; big-bucket configurations (999 / 1000 / 1001 / 2300) added"),
    "C07-9": ("Datastore.bucket_instances is a class attribute shared by all Datastore objects", "two datastores (one per backend) holding the same bucket id", "the implementation raised (closed connection) inside a work unit and the run ended as a harness error; exceptions out of the implementation inside a unit are now violations (generic guard)"),
    "C08-9": ("merged duration computed as last.duration + gap + hb.duration", "heartbeat with positive duration starting inside the previous event", ""),
    "C08-10": ("merge window test became an interval-intersection test", "out-of-order heartbeat reaching into the first event", ""),
    "C09-9": ("filter_period_intersect normalises the filter list through period_union", "touching filter events; filter inputs inspected afterwards", ""),
    "C09-10": ("period_union keeps a stale last_event after a merge", "three events joined transitively", ""),
    "C10-9": ("explicit pulsetime 0 falls back to the default (pulsetime or DEFAULT)", "pulsetime 0 with a gap <= 5 s", ""),
    "C10-10": ("zero-duration events removed in place while iterating", "two adjacent zero-duration events after flooding", ""),
}


def main():
    mpath = os.path.join(VERIF, "seeded", "MATRIX.json")
    matrix = json.load(open(mpath)) if os.path.exists(mpath) else {}
    rows = []
    for sid in sorted(M):
        d = os.path.join(VERIF, "seeded", sid)
        mp = os.path.join(d, "meta.json")
        if not os.path.exists(mp):
            print("missing", sid, file=sys.stderr)
            continue
        meta = json.load(open(mp))
        what, needs, missed = M[sid]
        meta["summary"] = what
        meta["needs_to_manifest"] = needs
        meta["first_missed_strengthening"] = missed
        caught = sorted(set(meta.get("caught_by", [])) | {c for c, v in matrix.get(sid, {}).items() if not c.startswith("_") and v.get("rc") == 1})
        meta["caught_by"] = caught
        with open(mp, "w") as f:
            json.dump(meta, f, indent=1)
        rows.append(f"| {sid} | {what} | {needs} | {', '.join(caught)} | {missed or '--'} |")
    if "--table" in sys.argv:
        print("\n".join(rows))
    print(f"{len(rows)} seeds, {sum(1 for s in M.values() if s[2] and not s[2].startswith('('))} first missed", file=sys.stderr)


if __name__ == "__main__":
    main()
