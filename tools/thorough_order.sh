#!/bin/bash
# tools/thorough_order.sh [workers]: thorough tier of every check, cheapest first (one line each)
cd "$(dirname "$0")/.."
W=${1:-16}
for i in 13 14 10 19 20 12 15 17 16 11 08 09 01 04 05 07 06 03 18 02; do
  s=$(date +%s)
  out=$(timeout ${VERIF_TIMEOUT:-7200} ./check C$i thorough --no-evidence --workers $W 2>&1); rc=$?
  e=$(date +%s)
  [ $rc -ne 0 ] && echo "$out" > /var/tmp/verif-fail-thorough-C$i.log
  echo "C$i rc=$rc $((e-s))s $(echo "$out" | grep -c '^VIOLATION') violations $(echo "$out" | grep -c '^KNOWN-FINDING') known $(echo "$out" | grep -c HARNESS) harness | $(echo "$out" | grep '^\[C' | cut -c1-150)"
done
