#!/bin/bash
# tools/wave.sh <PROP> <worktree> <first-seed-number> [checks] : confirm patch1/patch2 of a sub-agent and run checks
P=$1; WT=$2; N=$3; CH=${4:-$P}
cd "$(dirname "$0")/.."
for n in 1 2; do
  id=$P-$((N+n-1))
  timeout 1500 /venv/bin/python tools/seedcheck.py $id $WT $WT/_out/patch$n.diff $WT/_out/demo$n.py $P --checks $CH --keep > /var/tmp/wave-$id.log 2>&1
  /venv/bin/python - <<PY
import json
m=json.load(open('/verif/seeded/$id/meta.json')) if __import__('os').path.exists('/verif/seeded/$id/meta.json') else None
if m is None: print('$id NOT CONFIRMED')
else:
    r=m['what_was_run']
    print('$id', 'tests:', r.get('tests_with_patch'), '| demo rc', r['demo_unpatched_rc'], '->', r['demo_patched_rc'], '| caught_by', m['caught_by'])
    for c in r['checks']:
        print('   ', c['check'], 'rc', c['rc'], c['wall_s'], 's', (c['violations'][0].split('#',1)[1][:150] if c['violations'] else ''), c['harness'])
PY
done
