#!/venv/bin/python
"""tools/retest.py [--all] [-j N]: re-run the repository's own test suite and the demo for seeded changes on
the CURRENT /repo HEAD (each in a scratch worktree under /tmp, removed afterwards) and record the result
in seeded/<id>/meta.json.  Default: only seeds whose meta lacks a test record for the current HEAD."""
import json
import multiprocessing as mp
import os
import shutil
import subprocess
import sys
import tempfile

VERIF = os.path.dirname(os.path.dirname(os.path.abspath(__file__)))


def sh(cmd, cwd=None, env=None):
    p = subprocess.run(cmd, shell=True, cwd=cwd, env=env, capture_output=True, text=True)
    return p.returncode, p.stdout + p.stderr


def work(args):
    k, seeds = args
    wt = f"/tmp/retest-{os.getpid()}-{k}"
    sh(f"git -C /repo worktree add -q --detach {wt} HEAD")
    head = sh("git rev-parse --short HEAD", cwd=wt)[1].strip()
    out = []
    try:
        for sid in seeds:
            d = os.path.join(VERIF, "seeded", sid)
            xdg = tempfile.mkdtemp(prefix="seedxdg-", dir="/dev/shm")

            def fresh_env():
                # own empty XDG dirs for every step (a demo that writes a legacy database must not leak into the test run)
                sub = tempfile.mkdtemp(prefix="s-", dir=xdg)
                for x in ("d", "c", "k"):
                    os.makedirs(f"{sub}/{x}")
                return dict(os.environ, PYTHONPATH=wt, XDG_DATA_HOME=sub + "/d", XDG_CONFIG_HOME=sub + "/c", XDG_CACHE_HOME=sub + "/k", PYTHONDONTWRITEBYTECODE="1")

            demo = open(os.path.join(d, "demo.py")).read()
            # demos assert that they import from their original scratch worktree: point them at this one
            import re

            demo = re.sub(r"/tmp/mut\d*-C\d\d", wt, demo)
            dp = os.path.join(wt, "_demo.py")
            open(dp, "w").write(demo)
            r = {"head": head}
            r["demo_unpatched_rc"] = sh(f"/venv/bin/python -B {dp}", cwd=wt, env=fresh_env())[0]
            rc, o = sh(f"git apply {d}/patch.diff", cwd=wt)
            if rc:
                r["error"] = "patch does not apply: " + o[:200]
            else:
                rc, o = sh("/venv/bin/python -B -m pytest -q -p no:cacheprovider --timeout=900 tests 2>&1 | tail -3", cwd=wt, env=fresh_env())
                r["tests_with_patch"] = o.strip().splitlines()[-1] if o.strip() else ""
                r["tests_pass"] = " passed" in o and "failed" not in o and "error" not in o.lower()
                rc, o = sh(f"/venv/bin/python -B {dp}", cwd=wt, env=fresh_env())
                r["demo_patched_rc"] = rc
                r["demo_patched_tail"] = o.strip().splitlines()[-1][:300] if o.strip() else ""
            sh("git checkout -- . && git clean -fdq", cwd=wt)
            shutil.rmtree(xdg, ignore_errors=True)
            out.append((sid, r))
    finally:
        sh(f"git -C /repo worktree remove --force {wt}")
    return out


def main():
    j = int(sys.argv[sys.argv.index("-j") + 1]) if "-j" in sys.argv else 8
    head = sh("git -C /repo rev-parse --short HEAD")[1].strip()
    seeds = []
    for sid in sorted(os.listdir(os.path.join(VERIF, "seeded"))):
        mp_ = os.path.join(VERIF, "seeded", sid, "meta.json")
        if not os.path.exists(mp_):
            continue
        m = json.load(open(mp_))
        w = m["what_was_run"]
        if "--all" in sys.argv or not w.get("tests_with_patch") or w.get("tests_head") != head:
            seeds.append(sid)
    parts = [(k, seeds[k::j]) for k in range(j) if seeds[k::j]]
    bad = []
    with mp.get_context("fork").Pool(len(parts) or 1) as pool:
        for res in pool.imap_unordered(work, parts):
            for sid, r in res:
                mp_ = os.path.join(VERIF, "seeded", sid, "meta.json")
                m = json.load(open(mp_))
                w = m["what_was_run"]
                ok = not r.get("error") and r["tests_pass"] and r["demo_unpatched_rc"] == 0 and r["demo_patched_rc"] != 0
                if ok:
                    w.update(tests_with_patch=r["tests_with_patch"], tests_head=r["head"], demo_unpatched_rc=0, demo_patched_rc=r["demo_patched_rc"], demo_patched_tail=r["demo_patched_tail"])
                    m["base_commit"] = r["head"]
                    json.dump(m, open(mp_, "w"), indent=1)
                else:
                    bad.append((sid, r))
                print(sid, "ok" if ok else f"NOT CONFIRMED {r}", flush=True)
    print(f"{len(seeds)} seeds re-tested on {head}, {len(bad)} not confirmed")
    return 1 if bad else 0


if __name__ == "__main__":
    sys.exit(main())
