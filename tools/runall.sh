#!/bin/bash
# tools/runall.sh [tier] [seed] [extra flags] -- run every check, print one line each
cd "$(dirname "$0")/.."
tier=${1:-quick}; seed=${2:-0}; shift; shift
for i in 01 02 03 04 05 06 07 08 09 10 11 12 13 14 15 16 17 18 19 20; do
  s=$(date +%s)
  out=$(VERIF_SEED=$seed timeout ${VERIF_TIMEOUT:-3600} ./check C$i $tier "$@" 2>&1); rc=$?
  e=$(date +%s)
  [ $rc -ne 0 ] && echo "$out" > /var/tmp/verif-fail-C$i-seed$seed.log
  echo "C$i rc=$rc $((e-s))s $(echo "$out" | grep -c '^VIOLATION') violations $(echo "$out" | grep -c '^KNOWN-FINDING') known $(echo "$out" | grep -c HARNESS) harness | $(echo "$out" | grep '^\[C' | cut -c1-150)"
done
